SPECIFICATION Spec
CONSTANTS BudgetLen = 4  BudgetParallel = 4  BudgetRescale = 4  BudgetRecompose = 4  BudgetOrth = 16
POSTCONDITION Accepted
CHECK_DEADLOCK FALSE
