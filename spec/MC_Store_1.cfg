SPECIFICATION Spec
CONSTANTS Regs = {"r1", "r2"}  NComp = 1  Patterns <- P1  Nums <- NumsMC  Caps <- AllCaps  MaxAbs = 200  Depth = 4
INVARIANT TypeOK
PROPERTIES ReadsAreReadOnly CompoundEqualsPure OperandsUnchanged ZeroIsZero
CONSTRAINT Bound
VIEW View
CHECK_DEADLOCK FALSE
