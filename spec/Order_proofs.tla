--------------------------- MODULE Order_proofs ---------------------------
(* C14, unbounded part: the first-difference characterisation of the lexicographic order that     *)
(* MC_Order shows equal to the recursive LexLess of Order.tla on a small scope is a strict total  *)
(* order on integer sequences of every length the library stores (1, 2, 3, 6, 9 components), for  *)
(* ALL integer component ranks, not only the three ranks TLC enumerates.                          *)
EXTENDS Integers, NaturalsInduction, TLAPS
Lt(a, b, n) == \E i \in 1..n : a[i] < b[i] /\ \A j \in 1..(i - 1) : a[j] = b[j]
EqS(a, b, n) == \A i \in 1..n : a[i] = b[i]
Shapes == {1, 2, 3, 6, 9}

THEOREM Irreflexive == \A n \in Nat : \A a \in [1..n -> Int] : ~Lt(a, a, n)
  BY DEF Lt

THEOREM Asymmetric == \A n \in Nat : \A a, b \in [1..n -> Int] : Lt(a, b, n) => ~Lt(b, a, n)
  BY DEF Lt

THEOREM Transitive == \A n \in Nat : \A a, b, c \in [1..n -> Int] : Lt(a, b, n) /\ Lt(b, c, n) => Lt(a, c, n)
  BY DEF Lt

THEOREM EqIsNeither == \A n \in Nat : \A a, b \in [1..n -> Int] : EqS(a, b, n) => ~Lt(a, b, n) /\ ~Lt(b, a, n)
  BY DEF Lt, EqS

THEOREM Total1 == \A a, b \in [1..1 -> Int] : Lt(a, b, 1) \/ Lt(b, a, 1) \/ EqS(a, b, 1)
  BY DEF Lt, EqS
THEOREM Total2 == \A a, b \in [1..2 -> Int] : Lt(a, b, 2) \/ Lt(b, a, 2) \/ EqS(a, b, 2)
  BY DEF Lt, EqS
THEOREM Total3 == \A a, b \in [1..3 -> Int] : Lt(a, b, 3) \/ Lt(b, a, 3) \/ EqS(a, b, 3)
  BY DEF Lt, EqS
(* Totality for every length: induction on the length of the common prefix finds the first      *)
(* differing slot, if there is one.                                                               *)
THEOREM Total == \A n \in Nat : \A a, b \in [1..n -> Int] : Lt(a, b, n) \/ Lt(b, a, n) \/ EqS(a, b, n)
<1> SUFFICES ASSUME NEW n \in Nat, NEW a \in [1..n -> Int], NEW b \in [1..n -> Int]
             PROVE  Lt(a, b, n) \/ Lt(b, a, n) \/ EqS(a, b, n)
  OBVIOUS
<1> DEFINE P(k) == k <= n => ((\A j \in 1..k : a[j] = b[j]) \/ (\E i \in 1..k : a[i] # b[i] /\ \A j \in 1..(i - 1) : a[j] = b[j]))
<1>1. P(0)
  OBVIOUS
<1>2. \A k \in Nat : P(k) => P(k + 1)
  OBVIOUS
<1>3. \A k \in Nat : P(k)
  <2> HIDE DEF P
  <2> QED BY <1>1, <1>2, NatInduction, Isa
<1>4. P(n)
  BY <1>3
<1> QED
  BY <1>4 DEF Lt, EqS

(* The six operators as the library derives them (Order!Compare) are mutually consistent whenever *)
(* the underlying relation is a strict total order.                                               *)
Cmp(a, b, n) == [lt |-> Lt(a, b, n), gt |-> Lt(b, a, n), le |-> ~Lt(b, a, n), ge |-> ~Lt(a, b, n),
                 eq |-> EqS(a, b, n), ne |-> ~EqS(a, b, n)]
THEOREM Derived3 == \A a, b \in [1..3 -> Int] : LET k == Cmp(a, b, 3) IN
                       k.le = (k.lt \/ k.eq) /\ k.ge = (k.gt \/ k.eq) /\ k.ne = ~k.eq /\ (k.lt => ~k.gt)
  BY Total, Asymmetric, EqIsNeither DEF Cmp
THEOREM Derived9 == \A a, b \in [1..9 -> Int] : LET k == Cmp(a, b, 9) IN
                       k.le = (k.lt \/ k.eq) /\ k.ge = (k.gt \/ k.eq) /\ k.ne = ~k.eq /\ (k.lt => ~k.gt)
  BY Total, Asymmetric, EqIsNeither DEF Cmp

(* Signed zeros: ranks identify -0 and +0, so a sequence with -0 in a slot is EqS to the one with *)
(* +0 there and hence (EqIsNeither) neither smaller nor greater: == and the order agree.          *)
THEOREM EqSubstitutive == \A n \in Nat : \A a, b, c \in [1..n -> Int] : EqS(a, b, n) => (Lt(a, c, n) <=> Lt(b, c, n)) /\ (Lt(c, a, n) <=> Lt(c, b, n))
  BY DEF Lt, EqS
=============================================================================
