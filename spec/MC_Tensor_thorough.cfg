SPECIFICATION Spec
CONSTANTS ScopeA = 2  ScopeFull = 9
INVARIANTS AdjugateLaw DetTranspose CrossAnti DyadicTrace MatVecDyadic SymRoundTrip TransposeMul
CONSTRAINT Scope
CHECK_DEADLOCK FALSE
