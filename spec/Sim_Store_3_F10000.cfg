SPECIFICATION Spec
CONSTANTS Regs = {"r1", "r2", "r3"}  NComp = 3  Patterns <- P3  Nums <- NumsSim  Caps <- UnitCaps  Factor = 10000  MaxAbs = 16000000  Depth = 10
INVARIANT TypeOK
INVARIANT Emit
CONSTRAINT Bound
CHECK_DEADLOCK FALSE
