"""The relation graph of the library, extracted from the working tree by compile-time detection:
 * every operator instance  A op B -> C  over all ordered pairs of quantity types (and plain numbers),
 * every one- and two-argument constructor  C(A), C(A,B)  between quantity types,
 * (scan + compile-time confirmation) constructors with 3..9 quantity arguments and
   quantity-returning const member functions.
Cached per include-tree hash."""
import concurrent.futures as cf
import json
import os
import re
import sys

from . import common as C

sys.path.insert(0, os.path.join(C.VERIF, 'extract'))
sys.path.insert(0, C.HARNESS)
import scan    # noqa: E402
import qgen    # noqa: E402

DET_PRE = r'''
%(inc)s
#include <cstdio>
#include <type_traits>
using namespace PhQ;
template<class T> struct Name { static constexpr const char* v = "?"; };
template<> struct Name<double> { static constexpr const char* v = "Number"; };
template<> struct Name<PlanarVector<double>> { static constexpr const char* v = "PlanarVector"; };
template<> struct Name<Vector<double>> { static constexpr const char* v = "Vector"; };
template<> struct Name<SymmetricDyad<double>> { static constexpr const char* v = "SymmetricDyad"; };
template<> struct Name<Dyad<double>> { static constexpr const char* v = "Dyad"; };
%(names)s
#define TYPES(X) %(xlist)s
'''

OPS = r'''
#define OPDET(NM,OP) template<class A,class B,class=void> struct NM { static constexpr const char* v=nullptr; }; \
template<class A,class B> struct NM<A,B,std::void_t<decltype(std::declval<const A&>() OP std::declval<const B&>())>> { static constexpr const char* v=Name<std::decay_t<decltype(std::declval<const A&>() OP std::declval<const B&>())>>::v; };
OPDET(Mul,*) OPDET(Div,/) OPDET(Add,+) OPDET(Sub,-)
#define CDET(NM,OP) template<class A,class B,class=void> struct NM { static constexpr bool v=false; }; \
template<class A,class B> struct NM<A,B,std::void_t<decltype(std::declval<A&>() OP std::declval<const B&>())>> { static constexpr bool v=true; };
CDET(MulA,*=) CDET(DivA,/=) CDET(AddA,+=) CDET(SubA,-=)
template<class A,class B> void pair(){
  if(Mul<A,B>::v) printf("op %s * %s -> %s\n",Name<A>::v,Name<B>::v,Mul<A,B>::v);
  if(Div<A,B>::v) printf("op %s / %s -> %s\n",Name<A>::v,Name<B>::v,Div<A,B>::v);
  if(Add<A,B>::v) printf("op %s + %s -> %s\n",Name<A>::v,Name<B>::v,Add<A,B>::v);
  if(Sub<A,B>::v) printf("op %s - %s -> %s\n",Name<A>::v,Name<B>::v,Sub<A,B>::v);
  if constexpr(!std::is_same_v<A,double>){
  if(MulA<A,B>::v) printf("cop %s *= %s\n",Name<A>::v,Name<B>::v);
  if(DivA<A,B>::v) printf("cop %s /= %s\n",Name<A>::v,Name<B>::v);
  if(AddA<A,B>::v) printf("cop %s += %s\n",Name<A>::v,Name<B>::v);
  if(SubA<A,B>::v) printf("cop %s -= %s\n",Name<A>::v,Name<B>::v); }
}
template<class A> void row(){
#define X(n) pair<A,n<double>>();
  TYPES(X)
#undef X
  pair<A,double>(); pair<double,A>();
}
int main(){
#define X(n) row<n<double>>();
  TYPES(X)
#undef X
}
'''

CTORS = r'''
template<class C,class A,class B> void tri(){
  if constexpr (std::is_constructible_v<C,const A&,const B&>) printf("ctor %%s(%%s,%%s)\n",Name<C>::v,Name<A>::v,Name<B>::v);
}
template<class C,class A> void duo(){
  if constexpr (!std::is_same_v<C,A> && std::is_constructible_v<C,const A&>) printf("ctor %%s(%%s)\n",Name<C>::v,Name<A>::v);
#define X(n) tri<C,A,n<double>>();
  TYPES(X)
#undef X
}
template<class C> void uno(){
#define X(n) duo<C,n<double>>();
  TYPES(X)
#undef X
}
int main(){
%(mains)s
}
'''


def _pre(qs):
    names = sorted(qs)
    return DET_PRE % {'inc': qgen.includes(qs),
                      'names': '\n'.join('template<> struct Name<%s<double>> { static constexpr const char* v = "%s"; };' % (n, n) for n in names),
                      'xlist': ' '.join('X(%s)' % n for n in names)}


MEMB = r'''
template<class R, class C, class... A> struct MDet { template<class F> static void run(const char* line, F){ } };
#define MEMBER(C, F, R, ...) { using Cq = C<double>; if constexpr (has_##F<Cq, ##__VA_ARGS__>::value) { \
   using Rt = std::decay_t<typename has_##F<Cq, ##__VA_ARGS__>::type>; printf("member %s\\n", std::is_same_v<Rt, R>? LINE_OK : LINE_RET); } else printf("member-absent\\n"); }
'''


def scan_members_and_multictors(qs):
    """Regex scan of the class bodies: const member functions returning a quantity, and constructors with
    >= 3 quantity arguments.  Every hit is then confirmed at compile time (confirm())."""
    inc = os.path.join(C.INC, 'PhQ')
    members, multi = [], []
    qn = set(qs)
    for name, q in sorted(qs.items()):
        txt = scan.strip_comments(open(os.path.join(inc, q['header']), encoding='utf-8').read())
        m = re.search(r'class ' + name + r'\s*:\s*public[^{]*\{', txt)
        if not m:
            continue
        end = scan._find_block(txt, m.end() - 1)
        body = txt[m.end():end]
        for mm in re.finditer(r'(?:\[\[nodiscard\]\]\s*)?(?:constexpr\s+)?(?:PhQ::)?(\w+)<NumericType>\s+(\w+)\s*\(([^)]*)\)\s*const', body):
            ret, fn, params = mm.group(1), mm.group(2), mm.group(3)
            if ret not in qn or fn.startswith('operator'):
                continue
            args = re.findall(r'const\s+(?:PhQ::)?(\w+)<NumericType>\s*&', params)
            nparams = len([x for x in params.split(',') if x.strip()])
            if len(args) != nparams or any(a not in qn for a in args):
                continue
            members.append({'cls': name, 'name': fn, 'args': args, 'ret': ret})
        for mm in re.finditer(r'(?:explicit\s+)?(?:constexpr\s+)?' + name + r'\s*\(([^)]*)\)\s*(?::|;|\{)', body):
            params = mm.group(1)
            args = re.findall(r'const\s+(?:PhQ::)?(\w+)<NumericType>\s*&', params)
            nparams = len([x for x in params.split(',') if x.strip()])
            if nparams >= 3 and len(args) == nparams and all(a in qn for a in args):
                multi.append({'cls': name, 'args': args})
    return members, multi


def confirm(qs, members, multi):
    """Compile-time confirmation: keeps only what the compiler agrees exists with that return type."""
    lines = [qgen.includes(qs), '#include <cstdio>', '#include <type_traits>', 'using namespace PhQ;', 'int main(){']
    for i, m in enumerate(members):
        args = ', '.join('std::declval<const %s<double>&>()' % a for a in m['args'])
        lines.append('  { auto f = [](auto* p) -> decltype(std::declval<const %s<double>&>().%s(%s), void(p), 0) { return 0; };' % (m['cls'], m['name'], args))
        lines.append('    if constexpr (std::is_invocable_v<decltype(f), int*>) { using R = std::decay_t<decltype(std::declval<const %s<double>&>().%s(%s))>;' % (m['cls'], m['name'], args))
        lines.append('      printf("M %d %%d\\n", (int)std::is_same_v<R, %s<double>>); } else printf("M %d -1\\n"); }' % (i, m['ret'], i))
    for i, m in enumerate(multi):
        args = ', '.join('const %s<double>&' % a for a in m['args'])
        lines.append('  printf("C %d %%d\\n", (int)std::is_constructible_v<%s<double>, %s>);' % (i, m['cls'], args))
    lines.append('  return 0; }')
    exe = C.compile_cxx('det_members', [C.gen_file('det_members.cpp', '\n'.join(lines) + '\n')], flags=['-std=c++17', '-O0', '-w'])
    okm, okc, dropped = [], [], []
    for ln in C.run([exe], timeout=60).stdout.decode().split('\n'):
        p = ln.split()
        if len(p) != 3:
            continue
        if p[0] == 'M':
            (okm if p[2] == '1' else dropped).append(members[int(p[1])])
        else:
            (okc if p[2] == '1' else dropped).append(multi[int(p[1])])
    return okm, okc, dropped


def graph(nparts=10):
    """-> dict(ops=[(A,op,B,C)], cops=[(A,op,B)], ctors=[(C,[args])], qs=quantities)"""
    cache = os.path.join(C.cache_dir('facts'), 'relgraph.json')
    if os.path.exists(cache):
        return json.load(open(cache))
    qs = scan.scan_quantities()
    names = sorted(qs)
    pre = _pre(qs)
    jobs = [('det_ops', pre + OPS)]
    for k in range(nparts):
        mains = '\n'.join('  uno<%s<double>>();' % n for n in names[k::nparts])
        jobs.append(('det_ctor%d' % k, pre + CTORS % {'mains': mains}))

    def one(j):
        name, text = j
        exe = C.compile_cxx(name, [C.gen_file(name + '.cpp', text)], flags=['-std=c++17', '-O0', '-w'])
        return C.run([exe], timeout=120).stdout.decode()
    with cf.ThreadPoolExecutor(len(jobs)) as ex:
        outs = list(ex.map(one, jobs))
    ops, cops, ctors = [], [], []
    for ln in ''.join(outs).splitlines():
        p = ln.split()
        if p[0] == 'op':
            ops.append([p[1], p[2], p[3], p[5]])
        elif p[0] == 'cop':
            cops.append([p[1], p[2], p[3]])
        elif p[0] == 'ctor':
            m = re.match(r'(\w+)\(([\w,]+)\)', p[1])
            ctors.append([m.group(1), m.group(2).split(',')])
    mem, multi = scan_members_and_multictors(qs)
    mem, multi, dropped = confirm(qs, mem, multi)
    g = {'ops': sorted(ops), 'cops': sorted(cops), 'ctors': sorted(ctors), 'qs': qs, 'members': mem, 'multictors': multi,
         'scan_dropped': dropped}
    tmp = cache + f'.{os.getpid()}.tmp'
    json.dump(g, open(tmp, 'w'))
    os.rename(tmp, cache)
    return g
