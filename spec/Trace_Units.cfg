SPECIFICATION Spec
CONSTANT BudgetCoherence = 3
POSTCONDITION Accepted
CHECK_DEADLOCK FALSE
