"""Generates the direction / angle harness (C10, C11)."""
import qgen


def sources(qs, members):
    vq3 = sorted(n for n, q in qs.items() if q['shape'] == 'Vector' and q['unit'])
    vq2 = sorted(n for n, q in qs.items() if q['shape'] == 'PlanarVector' and q['unit'])
    has_dir = {m['cls'] for m in members if m['name'] in ('Direction', 'PlanarDirection') and not m['args']}
    has_angle = {m['cls'] for m in members if m['name'] == 'Angle' and m['args'] == [m['cls']]}
    out = [qgen.includes(qs), '#include "dirs.hpp"', 'using namespace PhQ;']
    out.append('template<class T> static std::array<T,3> A3(const Direction<T>& d){ return {d.x(), d.y(), d.z()}; }')
    out.append('template<class T> static std::array<T,3> A2(const PlanarDirection<T>& d){ return {d.x(), d.y(), (T)0}; }')
    out.append('template<class T> void run_dirs(uint64_t seed, int n){')
    P = []
    P.append(('xyz', 3, 'A3(Direction<T>(v[0],v[1],v[2]))'))
    P.append(('array', 3, 'A3(Direction<T>(std::array<T,3>{v[0],v[1],v[2]}))'))
    P.append(('vector', 3, 'A3(Direction<T>(Vector<T>(v[0],v[1],v[2])))'))
    P.append(('vector_member', 3, 'A3(Vector<T>(v[0],v[1],v[2]).Direction())'))
    P.append(('set_xyz', 3, '[&]{ Direction<T> d; d.Set(v[0],v[1],v[2]); return A3(d); }()'))
    P.append(('set_array', 3, '[&]{ Direction<T> d(1,0,0); d.Set(std::array<T,3>{v[0],v[1],v[2]}); return A3(d); }()'))
    P.append(('set_vector', 3, '[&]{ Direction<T> d(0,1,0); d.Set(Vector<T>(v[0],v[1],v[2])); return A3(d); }()'))
    P.append(('from_planar_direction', 2, 'A3(Direction<T>(PlanarDirection<T>(v[0],v[1])))'))
    for q in vq3:
        P.append((f'ctor_{q}', 3, f'A3(Direction<T>({qgen.mk(q, qs, "v", "0")}))'))
        if q in has_dir:
            P.append((f'member_{q}', 3, f'A3(({qgen.mk(q, qs, "v", "0")}).Direction())'))
    P.append(('xy', 2, 'A2(PlanarDirection<T>(v[0],v[1]))'))
    P.append(('array2', 2, 'A2(PlanarDirection<T>(std::array<T,2>{v[0],v[1]}))'))
    P.append(('planar_vector', 2, 'A2(PlanarDirection<T>(PlanarVector<T>(v[0],v[1])))'))
    P.append(('planar_vector_member', 2, 'A2(PlanarVector<T>(v[0],v[1]).PlanarDirection())'))
    P.append(('set_xy', 2, '[&]{ PlanarDirection<T> d; d.Set(v[0],v[1]); return A2(d); }()'))
    P.append(('set_array2', 2, '[&]{ PlanarDirection<T> d(1,0); d.Set(std::array<T,2>{v[0],v[1]}); return A2(d); }()'))
    P.append(('set_planar_vector', 2, '[&]{ PlanarDirection<T> d(0,1); d.Set(PlanarVector<T>(v[0],v[1])); return A2(d); }()'))
    P.append(('from_direction_3d', 2, 'A2(PlanarDirection<T>(Direction<T>(v[0],v[1],(v[0]+v[1])*(T)0.75)))'))
    for q in vq2:
        P.append((f'ctor_{q}', 2, f'A2(PlanarDirection<T>({qgen.mk(q, qs, "v", "0")}))'))
        if q in has_dir:
            P.append((f'member_{q}', 2, f'A2(({qgen.mk(q, qs, "v", "0")}).PlanarDirection())'))
    for i, (name, dim, expr) in enumerate(P):
        out.append(f'  dr::path<T,{dim}>("{name}", seed+{i}, n, [](const T* v) -> std::array<T,3> {{ return {expr}; }});')
    # cross product of two directions is a direction (unit, orthogonal to both) ; casts keep unit length
    out.append(r'''  { std::mt19937_64 g(seed+777); double worst=0, orth=0; long cnt=0, nonfinite=0;
    for(int t=0;t<n;t++){ T a[3],b[3]; for(int i=0;i<3;i++){ a[i]=(T)((double)(g()%2001)/1000.0-1.0); b[i]=(T)((double)(g()%2001)/1000.0-1.0); } if(t%5==0){ for(int i=0;i<3;i++) b[i]=a[i]+b[i]*(T)1e-3; }
      Direction<T> da(a[0],a[1],a[2]), db(b[0],b[1],b[2]); Direction<T> c = da.Cross(db); dr::Qd l2=(dr::Qd)c.x()*c.x()+(dr::Qd)c.y()*c.y()+(dr::Qd)c.z()*c.z();
      if(!std::isfinite((long double)c.x())){ nonfinite++; continue; } if(l2==0) continue; double u=(double)(fabsq(sqrtq(l2)-1)/(dr::Qd)dr::eps<T>()); if(u>worst) worst=u;
      // the cross product of two unit vectors at angle theta has length sin(theta): normalising it amplifies its rounding error by 1/sin(theta), so the orthogonality defect is judged times sin(theta)
      dr::Qd cx=(dr::Qd)da.y()*db.z()-(dr::Qd)da.z()*db.y(), cy=(dr::Qd)da.z()*db.x()-(dr::Qd)da.x()*db.z(), cz=(dr::Qd)da.x()*db.y()-(dr::Qd)da.y()*db.x(); dr::Qd sn=sqrtq(cx*cx+cy*cy+cz*cz);
      double o=(double)(sn*fabsq((dr::Qd)c.x()*da.x()+(dr::Qd)c.y()*da.y()+(dr::Qd)c.z()*da.z())/(dr::Qd)dr::eps<T>()); if(t%5 && o>orth) orth=o; cnt++; }
    printf("{\"e\":\"DirCross\",\"num\":\"%s\",\"n\":%ld,\"len_ulps\":%ld,\"orth_eps\":%ld,\"nonfinite\":%ld}\n", dr::NumName<T>::c, cnt, (long)std::ceil(worst), (long)std::ceil(orth), nonfinite); }''')
    # construction without an argument is exactly the zero vector; the Magnitude() / MagnitudeSquared() members of a direction report its length
    out.append(r'''  { Direction<T> d0; Direction<T> z0 = Direction<T>::Zero(); PlanarDirection<T> p0; PlanarDirection<T> q0 = PlanarDirection<T>::Zero();
    auto isz3=[](const Direction<T>& d){ return d.x()==0 && d.y()==0 && d.z()==0 && !std::signbit(d.x()) && !std::signbit(d.y()) && !std::signbit(d.z()); }; auto isz2=[](const PlanarDirection<T>& d){ return d.x()==0 && d.y()==0 && !std::signbit(d.x()) && !std::signbit(d.y()); };
    printf("{\"e\":\"DirZero\",\"num\":\"%s\",\"default3\":%d,\"zero3\":%d,\"default2\":%d,\"zero2\":%d,\"mag3\":%d,\"mag2\":%d}\n", dr::NumName<T>::c, (int)isz3(d0), (int)isz3(z0), (int)isz2(p0), (int)isz2(q0), (int)(d0.Magnitude()==0 && d0.MagnitudeSquared()==0), (int)(p0.Magnitude()==0 && p0.MagnitudeSquared()==0));
    std::mt19937_64 g(seed+4242); double w=0, w2=0; long cnt=0; for(int t=0;t<n;t++){ T a[3]; int ex=(int)(g()%41)-20; for(int i=0;i<3;i++) a[i]=std::ldexp((T)((double)(g()%2001)/1000.0-1.0), ex); if(a[0]==0&&a[1]==0) a[0]=1;
      Direction<T> d(a[0],a[1],a[2]); PlanarDirection<T> p(a[0],a[1]); double u=std::max((double)(std::fabs((long double)d.Magnitude()-1)/dr::eps<T>()), (double)(std::fabs((long double)d.MagnitudeSquared()-1)/dr::eps<T>())); if(u>w) w=u;
      u=std::max((double)(std::fabs((long double)p.Magnitude()-1)/dr::eps<T>()), (double)(std::fabs((long double)p.MagnitudeSquared()-1)/dr::eps<T>())); if(u>w2) w2=u; cnt++; }
    printf("{\"e\":\"DirMagnitude\",\"num\":\"%s\",\"n\":%ld,\"ulps3\":%ld,\"ulps2\":%ld}\n", dr::NumName<T>::c, cnt, (long)std::ceil(w), (long)std::ceil(w2)); }''')
    for i, q in enumerate(vq3):
        if q in has_dir:
            out.append(f'  dr::quantity<{q}<T>,T,3>("{q}", seed+{1000 + i}, n, [](const T* v){{ return {qgen.mk(q, qs, "v", "0")}; }}, [](const {q}<T>& q){{ return q.Direction(); }});')
    for i, q in enumerate(vq2):
        if q in has_dir:
            out.append(f'  dr::quantity<{q}<T>,T,2>("{q}", seed+{2000 + i}, n, [](const T* v){{ return {qgen.mk(q, qs, "v", "0")}; }}, [](const {q}<T>& q){{ return q.PlanarDirection(); }});')
    out.append('}')
    # casts between numeric types keep directions unit
    out.append(r'''template<class F, class T> void run_cast(uint64_t seed, int n){ std::mt19937_64 g(seed); double w3=0, w2=0;
  for(int t=0;t<n;t++){ F a[3]; for(int i=0;i<3;i++) a[i]=(F)((double)(g()%2001)/1000.0-1.0); if(a[0]==0&&a[1]==0) a[0]=1;
    Direction<F> d(a[0],a[1],a[2]); Direction<T> c(d); dr::Qd l2=(dr::Qd)c.x()*c.x()+(dr::Qd)c.y()*c.y()+(dr::Qd)c.z()*c.z(); double u=(double)(fabsq(sqrtq(l2)-1)/(dr::Qd)dr::eps<T>()); if(u>w3) w3=u;
    PlanarDirection<F> p(a[0],a[1]); PlanarDirection<T> pc(p); l2=(dr::Qd)pc.x()*pc.x()+(dr::Qd)pc.y()*pc.y(); u=(double)(fabsq(sqrtq(l2)-1)/(dr::Qd)dr::eps<T>()); if(u>w2) w2=u; }
  printf("{\"e\":\"DirCast\",\"from\":\"%s\",\"to\":\"%s\",\"n\":%d,\"len_ulps_3d\":%ld,\"len_ulps_2d\":%ld}\n", dr::NumName<F>::c, dr::NumName<T>::c, n, (long)std::ceil(w3), (long)std::ceil(w2)); }''')
    # angles
    out.append('template<class T> void run_angles(uint64_t seed, int n){')
    K = [('Vector,Vector', 3, 'Angle<T>(Vector<T>(a[0],a[1],a[2]), Vector<T>(b[0],b[1],b[2]))', None),
         ('Vector,Direction', 3, 'Angle<T>(Vector<T>(a[0],a[1],a[2]), Direction<T>(b[0],b[1],b[2]))', 'Angle<T>(Direction<T>(a[0],a[1],a[2]), Vector<T>(b[0],b[1],b[2]))'),
         ('Direction,Vector', 3, 'Angle<T>(Direction<T>(a[0],a[1],a[2]), Vector<T>(b[0],b[1],b[2]))', 'Angle<T>(Vector<T>(a[0],a[1],a[2]), Direction<T>(b[0],b[1],b[2]))'),
         ('Direction,Direction', 3, 'Angle<T>(Direction<T>(a[0],a[1],a[2]), Direction<T>(b[0],b[1],b[2]))', None),
         ('PlanarVector,PlanarVector', 2, 'Angle<T>(PlanarVector<T>(a[0],a[1]), PlanarVector<T>(b[0],b[1]))', None),
         ('PlanarVector,PlanarDirection', 2, 'Angle<T>(PlanarVector<T>(a[0],a[1]), PlanarDirection<T>(b[0],b[1]))', 'Angle<T>(PlanarDirection<T>(a[0],a[1]), PlanarVector<T>(b[0],b[1]))'),
         ('PlanarDirection,PlanarVector', 2, 'Angle<T>(PlanarDirection<T>(a[0],a[1]), PlanarVector<T>(b[0],b[1]))', 'Angle<T>(PlanarVector<T>(a[0],a[1]), PlanarDirection<T>(b[0],b[1]))'),
         ('PlanarDirection,PlanarDirection', 2, 'Angle<T>(PlanarDirection<T>(a[0],a[1]), PlanarDirection<T>(b[0],b[1]))', None),
         ('Vector.Angle(Vector)', 3, 'Vector<T>(a[0],a[1],a[2]).Angle(Vector<T>(b[0],b[1],b[2]))', None),
         ('Direction.Angle(Direction)', 3, 'Direction<T>(a[0],a[1],a[2]).Angle(Direction<T>(b[0],b[1],b[2]))', None),
         ('PlanarVector.Angle(PlanarVector)', 2, 'PlanarVector<T>(a[0],a[1]).Angle(PlanarVector<T>(b[0],b[1]))', None),
         ('PlanarDirection.Angle(PlanarDirection)', 2, 'PlanarDirection<T>(a[0],a[1]).Angle(PlanarDirection<T>(b[0],b[1]))', None),
         ('Direction.Angle(Vector)', 3, 'Direction<T>(a[0],a[1],a[2]).Angle(Vector<T>(b[0],b[1],b[2]))', 'Vector<T>(a[0],a[1],a[2]).Angle(Direction<T>(b[0],b[1],b[2]))'),
         ('Vector.Angle(Direction)', 3, 'Vector<T>(a[0],a[1],a[2]).Angle(Direction<T>(b[0],b[1],b[2]))', 'Direction<T>(a[0],a[1],a[2]).Angle(Vector<T>(b[0],b[1],b[2]))'),
         ('PlanarDirection.Angle(PlanarVector)', 2, 'PlanarDirection<T>(a[0],a[1]).Angle(PlanarVector<T>(b[0],b[1]))', 'PlanarVector<T>(a[0],a[1]).Angle(PlanarDirection<T>(b[0],b[1]))'),
         ('PlanarVector.Angle(PlanarDirection)', 2, 'PlanarVector<T>(a[0],a[1]).Angle(PlanarDirection<T>(b[0],b[1]))', 'PlanarDirection<T>(a[0],a[1]).Angle(PlanarVector<T>(b[0],b[1]))')]
    for q in vq3 + vq2:
        dim = 3 if q in vq3 else 2
        K.append((f'Angle({q},{q})', dim, f'Angle<T>({qgen.mk(q, qs, "a", "0")}, {qgen.mk(q, qs, "b", "0")})', None))
        if q in has_angle:
            K.append((f'{q}.Angle({q})', dim, f'({qgen.mk(q, qs, "a", "0")}).Angle({qgen.mk(q, qs, "b", "0")})', None))
    for i, (name, dim, expr, rev) in enumerate(K):
        f1 = f'[](const T* a, const T* b) -> T {{ return ({expr}).Value(); }}'
        f2 = f'[](const T* a, const T* b) -> T {{ return ({rev or expr}).Value(); }}'
        out.append(f'  {{ typedef T (*Fn)(const T*, const T*); Fn f1 = {f1}; Fn f2 = {f2}; dr::angle_kernel<T,{dim},Fn>("{name}", false, false, seed+{i}, n, f1, f2); dr::angle_axes<T,{dim},Fn>("{name}", f1); }}')
    out.append('}')
    out.append('''int main(int argc, char** argv){ std::string mode = argc>1? argv[1] : "dirs"; uint64_t seed = argc>2? strtoull(argv[2],0,10) : 1; int n = argc>3? atoi(argv[3]) : 1000;
  if(mode=="dirs"){ run_dirs<float>(seed,n); run_dirs<double>(seed,n); run_dirs<long double>(seed,n);
    run_cast<float,double>(seed,n); run_cast<float,long double>(seed,n); run_cast<double,float>(seed,n); run_cast<double,long double>(seed,n); run_cast<long double,float>(seed,n); run_cast<long double,double>(seed,n); }
  else { run_angles<float>(seed,n); run_angles<double>(seed,n); run_angles<long double>(seed,n); }
  return 0; }''')
    return [('dirs_main.cpp', '\n'.join(out) + '\n')], len(P), len(K)
