------------------------------- MODULE Trace_Battery -------------------------------
(* K3 / K2 acceptance for the per-type battery: layout facts (C17), precision casts (C16),        *)
(* comparison and hash events (C14), and the results of replaying Store behaviours (C04, C17).    *)
EXTENDS Order, Layout, Json, IOUtils, TLC, FiniteSets
Events == ndJsonDeserialize(IOEnv.TRACE)
Shapes == JsonDeserialize(IOEnv.SHAPES)         \* type |-> shape name
VARIABLES l, bad, seen
vars == <<l, bad, seen>>
Init == l = 1 /\ bad = <<>> /\ seen = [layout |-> {}, cast |-> {}, cmp |-> 0, cmpties |-> 0, cmpsum |-> {}, replay |-> {}]
IsEvent(e) == l <= Len(Events) /\ Events[l].e = e /\ l' = l + 1
B(x) == x = 1
Flag(ok, rec) == bad' = IF ok \/ Len(bad) >= 400 THEN bad ELSE Append(bad, rec)
TLayout == LET r == Events[l] IN
  /\ IsEvent("Layout") /\ r.type \in DOMAIN Shapes
  /\ Flag(LayoutOK(r, ShapeNComp[Shapes[r.type]]) /\ ZeroOK(r), [cls |-> "layout", type |-> r.type, num |-> r.num])
  /\ seen' = [seen EXCEPT !.layout = @ \cup {<<r.type, r.num>>}]
TCast == LET r == Events[l] IN
  /\ IsEvent("Cast") /\ r.type \in DOMAIN Shapes /\ r.from # r.to /\ r.n > 0
  /\ Flag(CastOK(r), [cls |-> "cast", type |-> r.type, num |-> r.from \o "->" \o r.to])
  /\ seen' = [seen EXCEPT !.cast = @ \cup {<<r.type, r.from, r.to>>}]
TCmp == LET r == Events[l]  c == Compare(r.a, r.b) IN
  /\ IsEvent("Cmp") /\ r.type \in DOMAIN Shapes /\ Len(r.a) = ShapeNComp[Shapes[r.type]] /\ Len(r.b) = Len(r.a)
  /\ Flag(/\ B(r.lt) = c.lt /\ B(r.gt) = c.gt /\ B(r.le) = c.le /\ B(r.ge) = c.ge /\ B(r.eq) = c.eq /\ B(r.ne) = c.ne
          /\ HashCongruent(r.a, r.b, B(r.heq)),
          [cls |-> "order", type |-> r.type, num |-> r.num])
  /\ seen' = [seen EXCEPT !.cmp = @ + 1, !.cmpties = @ + (IF r.a[1] = r.b[1] THEN 1 ELSE 0)]
TCmpSummary == LET r == Events[l] IN
  /\ IsEvent("CmpSummary") /\ r.type \in DOMAIN Shapes /\ r.pairs > 0
  /\ Flag(r.ref_mismatch = 0 /\ r.set_ok = 1 /\ r.uset_ok = 1, [cls |-> "order_summary", type |-> r.type, num |-> r.num])
  /\ seen' = [seen EXCEPT !.cmpsum = @ \cup {<<r.type, r.num>>}]
TReplay == LET r == Events[l] IN
  /\ IsEvent("Replay") /\ r.type \in DOMAIN Shapes
  /\ bad' = bad \o (IF r.mismatch = 0 THEN <<>> ELSE <<[cls |-> "replay", type |-> r.type, num |-> r.num]>>)
                \o (IF r.behaviours > 0 THEN <<>> ELSE <<[cls |-> "inconclusive_replay", type |-> r.type, num |-> r.num]>>)
  /\ seen' = [seen EXCEPT !.replay = @ \cup {<<r.type, r.num>>}]
(* C04-B: per (type, numeric type, operator): how many random operand sets were tried, for how many components   *)
(* the operator differed (bitwise) from the native operation on the stored values in the written order, and for *)
(* how many the compound assignment differed from the pure operator.                                            *)
TArith == LET r == Events[l] IN
  /\ IsEvent("Arith") /\ r.type \in DOMAIN Shapes /\ r.n > 0
  /\ r.op \in {"add", "sub", "muln", "nmul", "divn", "ratio", "number_of_other_type"}
  /\ bad' = bad \o (IF r.pure_bad = 0 THEN <<>> ELSE <<[cls |-> "arith_pure", type |-> r.type, num |-> r.num \o ":" \o r.op]>>)
                \o (IF r.compound_bad = 0 THEN <<>> ELSE <<[cls |-> "arith_compound", type |-> r.type, num |-> r.num \o ":" \o r.op]>>)
  /\ UNCHANGED seen
TMathFn == LET r == Events[l] IN
  /\ IsEvent("MathFn") /\ r.type \in DOMAIN Shapes /\ Shapes[r.type] = "Scalar" /\ r.n > 0
  /\ r.fn \in {"abs", "cbrt", "exp", "log", "log2", "log10", "pow", "sqrt",
              "pow_float_exponent", "pow_double_exponent", "pow_long_double_exponent", "pow_int_exponent"}   \* exponent of another arithmetic type
  /\ Flag(r.bad = 0, [cls |-> "mathfn", type |-> r.type, num |-> r.num \o ":" \o r.fn])
  /\ UNCHANGED seen
(* C17: construction, SetValue and MutableValue store exactly the given numbers (full-precision values of the type) *)
TMutator == LET r == Events[l] IN
  /\ IsEvent("Mutator") /\ r.type \in DOMAIN Shapes /\ r.n > 0
  /\ r.forms_tried > 0                  \* at least one constructor form taking the components themselves exists for every type
  /\ Flag(r.ctor_bad = 0 /\ r.set_bad = 0 /\ r.mutable_bad = 0 /\ r.forms_bad = 0, [cls |-> "mutator", type |-> r.type, num |-> r.num])
  /\ UNCHANGED seen
TFinish == /\ l = Len(Events) + 1 /\ l' = l + 1
           /\ JsonSerialize(IOEnv.OUT, [bad |-> bad, layout |-> Cardinality(seen.layout), cast |-> Cardinality(seen.cast),
                                         cmp |-> seen.cmp, cmpties |-> seen.cmpties, cmpsum |-> Cardinality(seen.cmpsum),
                                         replay |-> Cardinality(seen.replay)])
           /\ UNCHANGED <<bad, seen>>
Next == TLayout \/ TCast \/ TCmp \/ TCmpSummary \/ TReplay \/ TArith \/ TMathFn \/ TMutator \/ TFinish
Spec == Init /\ [][Next]_vars
Accepted == TLCGet("stats").diameter - 2 = Len(Events)
=============================================================================
