------------------------------- MODULE UnitSym -------------------------------
(* Semantics of a unit symbol.  A symbol such as  ft·lbf/slug/°R  is tokenised outside TLC      *)
(* (TLC cannot index strings) into the sequence <<<<"ft",1>>,<<"lbf",1>>,<<"slug",-1>>,         *)
(* <<"degR",-1>>>> following the grammar  a·b/c/d^n  (left-associative '/', parentheses).        *)
(* The meaning of the symbol is then defined here, from the hand-written atom table:             *)
(*   DimOf  - its dimension set,  MagOf - its SI magnitude as a bag,                             *)
(*   OffsetOf - the zero offset (only a bare °C / °F in the unit type Temperature has one).      *)
EXTENDS Dims, Mag, Atoms

Known(sym) == \A i \in 1..Len(sym) : sym[i][1] \in DOMAIN Atom
RECURSIVE DimOf(_), MagOf(_)
DimOf(sym) == IF sym = <<>> THEN DZero
              ELSE DAdd(DScale(Head(sym)[2], Atom[Head(sym)[1]].dim), DimOf(Tail(sym)))
MagOf(sym) == IF sym = <<>> THEN One
              ELSE BagAdd(BagScale(Head(sym)[2], Atom[Head(sym)[1]].mag), MagOf(Tail(sym)))

(* Affine units.  x [u] = (x + off) * mag [K].  Only a bare affine atom in the unit type         *)
(* "Temperature" carries its offset; the same atom in TemperatureDifference, HeatCapacity ...    *)
(* is a pure scale.                                                                              *)
HasOffset(type, sym) == /\ type = "Temperature" /\ Len(sym) = 1 /\ sym[1][2] = 1
                        /\ sym[1][1] \in DOMAIN AtomOffset
(* conversion to standard as the affine map  slope * x + off  and back *)
ToStd(type, sym) ==
  IF HasOffset(type, sym)
  THEN [slope |-> MagOf(sym), has_off |-> TRUE, off_neg |-> FALSE,
        off_bag |-> BagAdd(AtomOffset[sym[1][1]], MagOf(sym))]
  ELSE [slope |-> MagOf(sym), has_off |-> FALSE, off_neg |-> FALSE, off_bag |-> One]
FromStd(type, sym) ==
  IF HasOffset(type, sym)
  THEN [slope |-> BagInv(MagOf(sym)), has_off |-> TRUE, off_neg |-> TRUE, off_bag |-> AtomOffset[sym[1][1]]]
  ELSE [slope |-> BagInv(MagOf(sym)), has_off |-> FALSE, off_neg |-> FALSE, off_bag |-> One]
AffEq(impl, spec) == /\ AsBag(impl.slope) = spec.slope
                     /\ impl.has_off = spec.has_off
                     /\ spec.has_off => (impl.off_neg = spec.off_neg /\ AsBag(impl.off_bag) = spec.off_bag)
=============================================================================
