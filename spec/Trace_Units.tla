------------------------------- MODULE Trace_Units -------------------------------
(* K1 binding for the enumeration / unit tables (C01-A, C06, C07, C08, C20-totality).             *)
(* The trace is the content of the library's lookup tables, dumped from the compiled code (via   *)
(* the public API and the documented Internal table names), plus the exact affine maps parsed    *)
(* from the conversion bodies and the tokenised symbols.  One event per enumeration, enumerator, *)
(* spelling, consistent-unit entry, reverse lookup and quantity type; the state accumulates what *)
(* has been declared so far, so uniqueness and forward/reverse consistency are real guards.      *)
(* Structural guards (malformed record, undeclared type) reject the trace.  Verdict guards       *)
(* append a record to `bad` and let the trace continue, so one pass lists every violation.       *)
EXTENDS UnitSystems, Json, IOUtils, FiniteSets, SequencesExt

Facts == ndJsonDeserialize(IOEnv.FACTS)
CONSTANT BudgetCoherence

VARIABLES l,          \* next event
          enumOf,     \* type |-> [kind, names, dims, std]
          seenAbbr,   \* type |-> set of abbreviations seen
          abbrOf,     \* <<type, name>> |-> abbreviation (normalised for model types)
          unitAff,    \* <<type, name>> |-> [mag, to]  meaning of the unit's own symbol
          consistent, \* <<type, system>> |-> unit
          bad,        \* sequence of verdict records
          implAff     \* <<type, name>> |-> [to, from]  slope of the IMPLEMENTED conversion (parsed from its body), as bags
vars == <<l, enumOf, seenAbbr, abbrOf, unitAff, consistent, bad, implAff>>

Init == /\ l = 1 /\ enumOf = <<>> /\ seenAbbr = <<>> /\ abbrOf = <<>> /\ unitAff = <<>>
        /\ consistent = <<>> /\ bad = <<>> /\ implAff = <<>>

IsEvent(e) == l <= Len(Facts) /\ Facts[l].e = e /\ l' = l + 1
Toks(r)    == [i \in 1..Len(r.toks) |-> <<r.toks[i][1], r.toks[i][2]>>]
SeqSet(s)  == {s[i] : i \in 1..Len(s)}
V(cls, type, key, detail) == [cls |-> cls, type |-> type, key |-> key, detail |-> detail]
(* checks: sequence of <<holds, verdict record>>; the failed ones are appended to bad *)
Judge(checks) == bad' = bad \o [i \in 1..Len(SelectSeq(checks, LAMBDA c : ~c[1])) |->
                                   SelectSeq(checks, LAMBDA c : ~c[1])[i][2]]

TEnum == LET r == Facts[l]  n == Len(r.names) IN
  /\ IsEvent("Enum")
  /\ r.type \notin DOMAIN enumOf
  /\ Cardinality(SeqSet(r.names)) = n                      \* scanner sanity: enumerators distinct
  /\ r.kind = "unit" => IsDim(r.dims)
  /\ enumOf' = enumOf @@ (r.type :> [kind |-> r.kind, names |-> SeqSet(r.names),
                                     dims |-> IF r.kind = "unit" THEN r.dims ELSE DZero,
                                     std |-> IF r.kind = "unit" THEN r.std ELSE ""])
  /\ seenAbbr' = seenAbbr @@ (r.type :> {})
  /\ Judge(<< <<r.n_abbr = n, V("abbr_table_size", r.type, "Abbreviations", "entries differ from enumerators")>> >>
           \o (IF r.kind = "unit"
               THEN << <<r.std \in SeqSet(r.names), V("std_not_enumerator", r.type, r.std, "")>>,
                       <<\A i \in 1..3 : r.n_to[i] = n /\ r.n_from[i] = n,
                         V("map_size", r.type, "MapOfConversions", "entries differ from enumerators")>> >>
               ELSE <<>>))
  /\ UNCHANGED <<abbrOf, unitAff, consistent, implAff>>

TEnumerator == LET r == Facts[l] IN
  /\ IsEvent("Enumerator")
  /\ r.type \in DOMAIN enumOf /\ r.name \in enumOf[r.type].names /\ r.kind = enumOf[r.type].kind
  /\ <<r.type, r.name>> \notin DOMAIN abbrOf
  /\ LET T == r.type
         unit == r.kind = "unit"
         sym == IF unit /\ r.known THEN Toks(r) ELSE <<>>
         ok  == unit /\ r.known /\ Known(sym)
         common == << <<r.has_abbr, V("abbr_missing", T, r.name, "")>>,
                      <<r.has_abbr => r.abbr \notin seenAbbr[T], V("abbr_dup", T, r.name, r.abbr)>>,
                      <<r.has_abbr => r.abbr_pub = r.abbr, V("abbr_public", T, r.name, r.abbr_pub)>>,
                      <<r.streams => r.stream = r.abbr, V("stream", T, r.name, r.stream)>>,
                      <<r.has_abbr => r.parse_back = r.name, V("parse_back", T, r.name, r.parse_back)>> >>
         units == IF ~unit THEN <<>> ELSE
                  << <<r.keys, V("map_keys", T, r.name, "missing in a conversion dispatch table")>>,
                     <<r.keys => (r.dispatch_to /\ r.dispatch_from), V("dispatch_mismatch", T, r.name, "the run-time table does not dispatch this enumerator to its own conversion routine")>>,
                     <<~r.has_abbr \/ ok, V("inconclusive_symbol", T, r.name, r.abbr)>>,
                     <<r.parsed, V("inconclusive_body", T, r.name, "")>> >>
                  \o (IF ~ok THEN <<>> ELSE
                      << <<DimOf(sym) = enumOf[T].dims, V("dims_symbol", T, r.name, r.abbr)>>,
                         <<r.parsed => AffEq(r.to, ToStd(T, sym)), V("factor_to", T, r.name, r.abbr)>>,
                         <<r.parsed => AffEq(r.from, FromStd(T, sym)), V("factor_from", T, r.name, r.abbr)>>,
                         <<r.name = enumOf[T].std => (MagOf(sym) = One /\ ~HasOffset(T, sym)),
                           V("std_not_unit_magnitude", T, r.name, r.abbr)>> >>)
         sys == IF T # "UnitSystem" THEN <<>> ELSE
                << <<r.known /\ SeqSet(r.atoms) \subseteq DOMAIN Atom, V("inconclusive_symbol", T, r.name, r.abbr)>>,
                   <<r.known => SystemsDenotedBy(SeqSet(r.atoms)) = {r.name}, V("system_abbr_meaning", T, r.name, r.abbr)>> >>
     IN /\ Judge(common \o units \o sys)
        /\ seenAbbr' = [seenAbbr EXCEPT ![T] = @ \cup (IF r.has_abbr THEN {r.abbr} ELSE {})]
        /\ abbrOf' = abbrOf @@ (<<T, r.name>> :> (IF unit \/ T = "UnitSystem" THEN r.abbr ELSE r.norm))
        /\ unitAff' = IF ok THEN unitAff @@ (<<T, r.name>> :> [mag |-> MagOf(sym), to |-> ToStd(T, sym), dim |-> DimOf(sym)]) ELSE unitAff
        /\ implAff' = IF unit /\ r.parsed THEN implAff @@ (<<T, r.name>> :> [to |-> AsBag(r.to.slope), from |-> AsBag(r.from.slope)]) ELSE implAff
  /\ UNCHANGED <<enumOf, consistent>>

TExtraKey == LET r == Facts[l] IN
  /\ IsEvent("ExtraKey")
  /\ Judge(<< <<FALSE, V("extra_key", r.type, r.table, ToString(r.val))>> >>)
  /\ UNCHANGED <<enumOf, seenAbbr, abbrOf, unitAff, consistent, implAff>>

TSpelling == LET r == Facts[l]  T == r.type IN
  /\ IsEvent("Spelling")
  /\ T \in DOMAIN enumOf /\ r.kind = enumOf[T].kind
  /\ LET target == r.maps_to \in enumOf[T].names
         unit   == r.kind = "unit"
         sym    == IF unit /\ r.known THEN Toks(r) ELSE <<>>
         ok     == unit /\ r.known /\ Known(sym) /\ <<T, r.maps_to>> \in DOMAIN unitAff
     IN Judge(<< <<target, V("spelling_target", T, r.text, r.maps_to)>>,
                 <<r.parse = r.maps_to, V("spelling_parse", T, r.text, r.parse)>> >>
              \o (IF unit /\ target
                  THEN << <<r.known /\ Known(sym), V("inconclusive_spelling", T, r.text, r.maps_to)>> >>
                       \o (IF ok THEN << <<DimOf(sym) = enumOf[T].dims /\ ToStd(T, sym) = unitAff[<<T, r.maps_to>>].to,
                                           V("spelling_meaning", T, r.text, r.maps_to)>> >> ELSE <<>>)
                  ELSE IF T = "UnitSystem" /\ target
                  THEN << <<r.known /\ SeqSet(r.atoms) \subseteq DOMAIN Atom, V("inconclusive_spelling", T, r.text, r.maps_to)>>,
                          <<r.known => SystemsDenotedBy(SeqSet(r.atoms)) = {r.maps_to}, V("spelling_meaning", T, r.text, r.maps_to)>> >>
                  ELSE IF target
                  THEN << <<<<T, r.maps_to>> \in DOMAIN abbrOf /\ r.norm = abbrOf[<<T, r.maps_to>>],
                            V("spelling_meaning", T, r.text, r.maps_to)>> >>
                  ELSE <<>>))
  /\ UNCHANGED <<enumOf, seenAbbr, abbrOf, unitAff, consistent, implAff>>

TConsistent == LET r == Facts[l]  T == r.type IN
  /\ IsEvent("Consistent")
  /\ T \in DOMAIN enumOf /\ r.system \in Systems
  /\ <<T, r.system>> \notin DOMAIN consistent
  /\ LET present == r.unit \in enumOf[T].names
         ok == present /\ <<T, r.unit>> \in DOMAIN unitAff
     IN Judge(<< <<present, V("consistent_missing", T, r.system, r.unit)>>,
                 <<r.pub = r.unit, V("consistent_public", T, r.system, r.pub)>> >>
              \o (IF ok THEN
                  << <<unitAff[<<T, r.unit>>].mag = CoherentMag(r.system, enumOf[T].dims),
                       V("incoherent", T, r.system, r.unit)>>,
                     <<r.system = StandardSystem => r.unit = enumOf[T].std,
                       V("std_system_not_standard_unit", T, r.system, r.unit)>> >> ELSE <<>>))
  /\ consistent' = consistent @@ (<<T, r.system>> :> r.unit)
  /\ UNCHANGED <<enumOf, seenAbbr, abbrOf, unitAff, implAff>>

SystemsOf(t, u) == {s \in Systems : <<t, s>> \in DOMAIN consistent /\ consistent[<<t, s>>] = u}
TRelated == LET r == Facts[l]  S == SystemsOf(r.type, r.unit) IN
  /\ IsEvent("Related")
  /\ r.type \in DOMAIN enumOf /\ r.unit \in enumOf[r.type].names
  /\ \A s \in Systems : <<r.type, s>> \in DOMAIN consistent     \* forward table was dumped completely
  /\ Judge(<< <<IF Cardinality(S) = 1 THEN r.system \in S ELSE r.system = "#none",
                V("related_system", r.type, r.unit, r.system)>> >>)
  /\ UNCHANGED <<enumOf, seenAbbr, abbrOf, unitAff, consistent, implAff>>

TQType == LET r == Facts[l] IN
  /\ IsEvent("QType")
  /\ r.unit_type = "#none" \/ r.unit_type \in DOMAIN enumOf
  /\ Judge(<< <<r.dims = r.dims_f /\ r.dims = r.dims_l, V("qtype_dims_numeric_types", r.name, r.name, "")>>,
              <<r.dims = (IF r.unit_type = "#none" THEN DZero ELSE enumOf[r.unit_type].dims),
                V("qtype_dims", r.name, r.name, r.unit_type)>> >>)
  /\ UNCHANGED <<enumOf, seenAbbr, abbrOf, unitAff, consistent, implAff>>

(* abstract events of the non-spelling fuzz: per enumeration type and mutation class, how many    *)
(* mutated strings were tried, how many happened to be accepted spellings (linear scan over the  *)
(* table's keys), and for how many ParseEnumeration disagreed with that membership.              *)
TNonSpelling == LET r == Facts[l] IN
  /\ IsEvent("NonSpelling")
  /\ r.type \in DOMAIN enumOf /\ r.n >= 0 /\ r.accepted <= r.n
  /\ Judge(<< <<r.wrong = 0, V("nonspelling", r.type, ToString(r.cls), r.witness)>> >>)
  /\ UNCHANGED <<enumOf, seenAbbr, abbrOf, unitAff, consistent, implAff>>

(* C07 on the IMPLEMENTED factors: the slope of the consistent unit's own conversion routine (parsed exactly from its body)   *)
(* equals the product of the slopes of the system's base units - the consistent units of the six base unit types in the     *)
(* library's own table - raised to the type's dimension exponents; both directions.  (TConsistent states the same for the   *)
(* magnitudes the unit SYMBOLS denote; C01 ties the two together unit by unit.  Emitted after all tables are known.)        *)
BaseTypes == <<"Time", "Length", "Mass", "ElectricCurrent", "Temperature", "SubstanceAmount">>
RECURSIVE ImplCoh(_, _, _, _)
ImplCoh(s, d, dir, i) == IF i = 0 THEN One ELSE
  BagAdd(IF d[i] = 0 THEN One ELSE BagScale(d[i], implAff[<<BaseTypes[i], consistent[<<BaseTypes[i], s>>]>>][dir]), ImplCoh(s, d, dir, i - 1))
TImplCoherent == LET r == Facts[l]  T == r.type IN
  /\ IsEvent("ImplCoherent")
  /\ <<T, r.system>> \in DOMAIN consistent /\ consistent[<<T, r.system>>] = r.unit
  /\ LET d == enumOf[T].dims
         decidable == /\ <<T, r.unit>> \in DOMAIN implAff /\ d[7] = 0
                      /\ \A i \in 1..6 : d[i] # 0 => /\ <<BaseTypes[i], r.system>> \in DOMAIN consistent
                                                      /\ <<BaseTypes[i], consistent[<<BaseTypes[i], r.system>>]>> \in DOMAIN implAff
         dd == [i \in 1..6 |-> d[i]]
     IN Judge(IF ~decidable THEN << <<FALSE, V("inconclusive_impl_coherence", T, r.system, r.unit)>> >>
              ELSE << <<implAff[<<T, r.unit>>].to = ImplCoh(r.system, dd, "to", 6), V("incoherent_implemented", T, r.system, r.unit \o " (to standard)")>>,
                      <<implAff[<<T, r.unit>>].from = ImplCoh(r.system, dd, "from", 6), V("incoherent_implemented", T, r.system, r.unit \o " (from standard)")>> >>)
  /\ UNCHANGED <<enumOf, seenAbbr, abbrOf, unitAff, consistent, implAff>>

(* C07 on the numbers the real conversion routines produce (float, double, long double): the value of one consistent unit in the standard  *)
(* unit - and of one standard unit in it - against the product of the measured values of the system's base units, compared in exact      *)
(* rational arithmetic; the distance in ulps is bounded by BudgetCoherence per constant involved (the unit's own and one per base-unit    *)
(* factor): literal-suffix and precision slips that the exact layer cannot see (it reads the constants, not their types).                  *)
AbsSum(d) == LET A(x) == IF x < 0 THEN -x ELSE x IN A(d[1]) + A(d[2]) + A(d[3]) + A(d[4]) + A(d[5]) + A(d[6]) + A(d[7])
TCoherenceNum == LET r == Facts[l]  T == r.type IN
  /\ IsEvent("CoherenceNum") /\ r.num \in {"f", "d", "l"}
  /\ <<T, r.system>> \in DOMAIN consistent /\ consistent[<<T, r.system>>] = r.unit
  /\ LET budget == BudgetCoherence * (1 + AbsSum(enumOf[T].dims)) IN
     Judge(IF ~r.decidable THEN << <<FALSE, V("inconclusive_numeric_coherence", T, r.system, r.unit)>> >>
           ELSE << <<r.ulps_to <= budget /\ r.ulps_from <= budget, V("incoherent_numeric", T, r.system, r.unit \o " (" \o r.num \o ")")>> >>)
  /\ UNCHANGED <<enumOf, seenAbbr, abbrOf, unitAff, consistent, implAff>>

TFinish == /\ l = Len(Facts) + 1 /\ l' = l + 1
           /\ LET keys == SetToSeq(DOMAIN unitAff) IN
              JsonSerialize(IOEnv.OUT, [bad |-> bad, events |-> Len(Facts),
                                         units |-> Cardinality(DOMAIN unitAff),
                                         consistent |-> Cardinality(DOMAIN consistent),
                                         \* the oracle table for the numeric layer: meaning of every unit symbol
                                         unit_table |-> [i \in 1..Len(keys) |->
                                            [type |-> keys[i][1], name |-> keys[i][2],
                                             mag |-> unitAff[keys[i]].mag,
                                             dim |-> unitAff[keys[i]].dim,
                                             std |-> keys[i][2] = enumOf[keys[i][1]].std,
                                             has_off |-> unitAff[keys[i]].to.has_off,
                                             off |-> IF unitAff[keys[i]].to.has_off
                                                     THEN BagSub(unitAff[keys[i]].to.off_bag, unitAff[keys[i]].mag)
                                                     ELSE One]]])
           /\ UNCHANGED <<enumOf, seenAbbr, abbrOf, unitAff, consistent, bad, implAff>>

Next == TEnum \/ TEnumerator \/ TExtraKey \/ TSpelling \/ TConsistent \/ TRelated \/ TQType \/ TNonSpelling \/ TImplCoherent \/ TCoherenceNum \/ TFinish
Spec == Init /\ [][Next]_vars
(* one state per consumed event, the initial state, and the finishing step *)
Accepted == TLCGet("stats").diameter - 2 = Len(Facts)
=============================================================================
