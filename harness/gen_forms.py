"""Generates the C02 harness: free conversion functions in every container form (run-time and compile-time)
and the quantity accessors in every unit, compared slot by slot with the plain scalar Convert."""
import qgen

NUMS = ['float', 'double', 'long double']


def sources(units, qs, thorough=False, nparts=16):
    parts = []
    ubytype = {u['type']: u for u in units}
    qnames = [n for n in sorted(qs) if qs[n]['unit']]
    for k in range(nparts):
        us = units[k::nparts]
        qn = qnames[k::nparts]
        inc = sorted(set(['#include "PhQ/Unit/%s"' % u['header'] for u in us] + ['#include "PhQ/%s"' % qs[n]['header'] for n in qn]))
        out = ['\n'.join(inc), '#include "forms.hpp"', 'using namespace PhQ;']
        for u in us:
            T = u['type']
            out.append('static const frm::NameTab<Unit::%s> FT_%s[] = {%s};' % (T, T, ','.join('{Unit::%s::%s,"%s"}' % (T, n, n) for n in u['names'])))
        for n in qn:
            out.append('template<class TT> struct Ad_%s { using T = TT; using Q = %s<TT>; static constexpr int N = %d; static Q make(const T* x){ return %s; } };'
                       % (n, n, qgen.NCOMP[qs[n]['shape']], qgen.mk(n, qs, 'x', '0')))
        out.append('template<class T> static void fpart_T_%d(const std::string& mode, uint64_t seed, int reps){' % k)
        out.append('  if(mode=="free"){')
        for u in us:
            T = u['type']
            out.append('    frm::runtime_all<Unit::%s,T>("%s", FT_%s, seed, reps, %d); frm::identity_all<Unit::%s,T>("%s", FT_%s, seed, reps*8);' % (T, T, T, 1 if thorough else 0, T, T, T))
            names = u['names']
            std = u.get('std_scanned') or names[0]
            pairs = set()
            for i, a in enumerate(names):
                pairs.add((a, std))
                pairs.add((std, a))
                pairs.add((a, names[(i + 1) % len(names)]))
                if thorough:
                    pairs.add((a, names[(i + 3) % len(names)]))
            for a, b in sorted(pairs):
                out.append('    frm::static_forms<Unit::%s, Unit::%s::%s, Unit::%s::%s, T>("%s","%s","%s",seed,reps);' % (T, T, a, T, b, T, a, b))
        out.append('  }')
        out.append('  if(mode=="accessors"){')
        for n in qn:
            U = qs[n]['unit']
            for un in ubytype[U]['names']:
                out.append('    frm::accessors<Ad_%s<T>, Unit::%s, Unit::%s::%s>("%s","%s",seed,reps);' % (n, U, U, un, n, un))
        out.append('  }')
        out.append('}')
        out.append('void fpart_%d(const std::string& mode, uint64_t seed, int reps){ fpart_T_%d<float>(mode,seed,reps); fpart_T_%d<double>(mode,seed,reps); fpart_T_%d<long double>(mode,seed,reps); }' % (k, k, k, k))
        parts.append(('forms_part%d%s.cpp' % (k, 't' if thorough else 'q'), '\n'.join(out) + '\n'))
    ks = list(range(len(parts)))
    m = ['#include <cstdint>', '#include <cstdlib>', '#include <cstdio>', '#include <string>']
    m += ['void fpart_%d(const std::string&, uint64_t, int);' % k for k in ks]
    m.append('int main(int argc, char** argv){ if(argc<4){ fprintf(stderr,"usage: forms mode seed reps [part]\\n"); return 2; }')
    m.append('  std::string mode=argv[1]; uint64_t seed=strtoull(argv[2],0,10); int reps=atoi(argv[3]); int only = argc>4? atoi(argv[4]) : -1;')
    m += ['  if(only<0||only==%d) fpart_%d(mode, seed, reps);' % (k, k) for k in ks]
    m.append('  return 0; }')
    parts.append(('forms_main.cpp', '\n'.join(m) + '\n'))
    return parts, ks
