------------------------------- MODULE Trace_Tensor -------------------------------
(* K3 for C09: recorded executions of every vector / tensor operation and operand-shape             *)
(* combination on integer operands are recomputed in index notation (Tensor.tla); the numeric layer  *)
(* (random reals against a __float128 reference, error in ulps of Sum|terms|) arrives as abstract    *)
(* events.  Inverse: absent iff Det = 0; inverse * Det = Adjugate when Det is a power of two.        *)
EXTENDS Tensor, Json, IOUtils, TLC, FiniteSets
CONSTANTS BudgetUlps, BudgetResidual
Events == ndJsonDeserialize(IOEnv.TRACE)
VARIABLES l, bad, ops
vars == <<l, bad, ops>>
Init == l = 1 /\ bad = <<>> /\ ops = {}
IsEvent(e) == l <= Len(Events) /\ Events[l].e = e /\ l' = l + 1
Flag(ok, rec) == bad' = IF ok \/ Len(bad) >= 400 THEN bad ELSE Append(bad, rec)
P3(p) == PlanarEmbed(p)
KOf(b) == IF b[1] = 0 THEN 3 ELSE b[1]
ShapePrefixes == {"pv", "v", "sd", "d"}
ScaleOps == {p \o s : p \in ShapePrefixes, s \in {"_scale", "_scale_left", "_scale_int", "_muleq"}}
UnscaleOps == {p \o s : p \in ShapePrefixes, s \in {"_div", "_div_int", "_diveq", "_diveq_int"}}
Expected(op, a, b) ==
  CASE op = "pv_magsq"   -> <<PDot(a, a)>>
    [] op = "pv_embed"   -> PlanarEmbed(a)
    [] op = "v_project"  -> <<a[1], a[2]>>
    [] op \in {"pv_dot", "pv_dot_pdir"}       -> <<PDot(a, b)>>
    [] op \in {"pv_cross", "pv_cross_pdir"}   -> <<0, 0, PCrossZ(a, b)>>
    [] op \in {"pv_dyadic", "pv_dyadic_pdir"} -> PDyadic(a, b)
    [] op = "v_magsq"    -> <<VMagSq(a)>>
    [] op \in {"v_dot", "v_dot_dir"}          -> <<Dot(a, b)>>
    [] op \in {"v_cross", "v_cross_dir"}      -> Cross(a, b)
    [] op \in {"v_dyadic", "v_dyadic_dir"}    -> Dyadic(a, b)
    [] op = "v_from_magnitude_direction"  -> VScale(a[1], b)
    [] op = "pv_from_magnitude_direction" -> <<a[1] * b[1], a[1] * b[2]>>
    [] op = "sd_trace"   -> <<Trace(SymEmbed(a))>>
    [] op = "sd_det"     -> <<Det(SymEmbed(a))>>
    [] op = "sd_cof"     -> SymOfDyad(Cofactors(SymEmbed(a)))
    [] op = "sd_adj"     -> SymOfDyad(Adjugate(SymEmbed(a)))
    [] op = "sd_embed"   -> SymEmbed(a)
    [] op = "d_trace"    -> <<Trace(a)>>
    [] op = "d_det"      -> <<Det(a)>>
    [] op = "d_transpose" -> Transpose(a)
    [] op = "d_cof"      -> Cofactors(a)
    [] op = "d_adj"      -> Adjugate(a)
    [] op \in {"sd_mul_pv", "sd_mul_pdir"} -> MatVec(SymEmbed(a), P3(b))
    [] op \in {"sd_mul_v", "sd_mul_dir"}   -> MatVec(SymEmbed(a), b)
    [] op = "sd_mul_sd"  -> MatMul(SymEmbed(a), SymEmbed(b))
    [] op = "sd_mul_d"   -> MatMul(SymEmbed(a), b)
    [] op \in {"d_mul_pv", "d_mul_pdir"}   -> MatVec(a, P3(b))
    [] op \in {"d_mul_v", "d_mul_dir"}     -> MatVec(a, b)
    [] op = "d_mul_sd"   -> MatMul(a, SymEmbed(b))
    [] op = "d_mul_d"    -> MatMul(a, b)
    \* the direction on the left: b is the (axis-aligned) direction, a the vector; with two directions the second one is b rotated
    [] op = "dir_cross_v"      -> Cross(b, a)
    [] op = "dir_dyadic_v"     -> Dyadic(b, a)
    [] op = "dir_dyadic_dir"   -> Dyadic(b, <<b[2], b[3], b[1]>>)
    [] op = "pdir_cross_pv"    -> <<0, 0, PCrossZ(b, a)>>
    [] op = "pdir_dyadic_pv"   -> PDyadic(b, a)
    [] op = "pdir_dyadic_pdir" -> PDyadic(b, <<b[2], b[1]>>)
    [] op = "sd_transpose"     -> a                                        \* a symmetric dyad is its own transpose
    \* scaling: b is the number (3 when the grid gives 0); the division forms divide k * a by k
    [] op \in ScaleOps -> [i \in 1..Len(a) |-> a[i] * KOf(b)]
    [] op \in UnscaleOps -> a
AllOps ==  ScaleOps \cup UnscaleOps \cup {"pv_magsq", "pv_embed", "v_project", "pv_dot", "pv_cross", "pv_dyadic", "pv_dot_pdir", "pv_cross_pdir", "pv_dyadic_pdir",
           "v_from_magnitude_direction", "pv_from_magnitude_direction", "v_magsq", "v_dot", "v_cross", "v_dyadic", "v_dot_dir", "v_cross_dir", "v_dyadic_dir", "sd_trace", "sd_det", "sd_cof",
           "sd_adj", "sd_embed", "d_trace", "d_det", "d_transpose", "d_cof", "d_adj", "sd_mul_pv", "sd_mul_v", "sd_mul_sd", "sd_mul_d",
           "d_mul_pv", "d_mul_v", "d_mul_sd", "d_mul_d", "sd_mul_dir", "d_mul_dir", "sd_mul_pdir", "d_mul_pdir",
           "dir_cross_v", "dir_dyadic_v", "dir_dyadic_dir", "pdir_cross_pv", "pdir_dyadic_pv", "pdir_dyadic_pdir", "sd_transpose"}
TOp == LET r == Events[l] IN
  /\ IsEvent("T") /\ r.op \in AllOps /\ r.num \in {"f", "d", "l"}
  /\ Flag(r.integral /\ r.out = Expected(r.op, r.a, r.b), [cls |-> "tensor_op", op |-> r.op, num |-> r.num, a |-> r.a, b |-> r.b, out |-> r.out])
  /\ ops' = ops \cup {<<r.op, r.num>>}
TInv == LET r == Events[l]
            full == IF r.shape = "sd" THEN SymEmbed(r.a) ELSE r.a
            scaled == IF r.shape = "sd" /\ r.pow2 = 1 THEN SymEmbed(r.scaled) ELSE r.scaled     \* Det * inverse, as a dyad
        IN
  /\ IsEvent("Inv") /\ r.shape \in {"sd", "d"}
  /\ Flag(/\ (r.present = 1) = InverseDefined(full)                       \* absent exactly when the determinant is zero
          /\ r.pow2 = 1 => IsInverseTimesDet(scaled, full),                 \* Det * inverse = Adjugate (Det a power of two: exact)
          [cls |-> "tensor_inverse", op |-> r.shape, num |-> r.num, a |-> r.a, b |-> <<>>, out |-> r.scaled])
  /\ ops' = ops \cup {<<"inverse_" \o r.shape, r.num>>}
TSummary == LET r == Events[l] IN
  /\ IsEvent("TSummary") /\ r.checked > 0
  /\ Flag(r.ref_mismatch = 0, [cls |-> "tensor_reference_mismatch", op |-> "", num |-> "", a |-> <<>>, b |-> <<>>, out |-> <<r.ref_mismatch>>])
  /\ UNCHANGED ops
TReal == LET r == Events[l] IN
  /\ IsEvent("TReal") /\ r.n > 0
  /\ Flag(r.ulps <= BudgetUlps, [cls |-> "tensor_ulps", op |-> r.op, num |-> r.num, a |-> <<>>, b |-> <<>>, out |-> <<r.ulps>>])
  /\ ops' = ops \cup {<<"real_" \o r.op, r.num>>}
TInvReal == LET r == Events[l] IN
  /\ IsEvent("InvReal") /\ r.n > 0
  /\ Flag(r.absent = 0 /\ r.residual_eps <= BudgetResidual,
          [cls |-> "tensor_inverse_real", op |-> r.shape, num |-> r.num, a |-> <<>>, b |-> <<>>, out |-> <<r.absent, r.k_witness, r.residual_eps>>])
  /\ UNCHANGED ops
TInvSingular == LET r == Events[l] IN
  /\ IsEvent("InvSingular") /\ r.n > 0
  /\ Flag(r.present = 0, [cls |-> "tensor_inverse_of_singular", op |-> r.shape, num |-> r.num, a |-> <<>>, b |-> <<>>, out |-> <<r.present>>])
  /\ UNCHANGED ops
TFinish == /\ l = Len(Events) + 1 /\ l' = l + 1
           /\ JsonSerialize(IOEnv.OUT, [bad |-> bad, covered |-> Cardinality(ops),
                 missing |-> Cardinality((AllOps \X {"f", "d", "l"}) \ ops)])
           /\ UNCHANGED <<bad, ops>>
Next == TOp \/ TInv \/ TSummary \/ TReal \/ TInvReal \/ TInvSingular \/ TFinish
Spec == Init /\ [][Next]_vars
Accepted == TLCGet("stats").diameter - 2 = Len(Events)
=============================================================================
