------------------------------- MODULE Definitions -------------------------------
(* C18: the named physical definitions the library implements, as textbook formulas.             *)
(* Scalar definitions are monomials  c * Prod x_i^(p_i)  (deg2 = doubled exponents, c2 = bag of  *)
(* c^2) or linear forms  Sum k_i x_i.  Hand-written from the textbook formulas quoted in the     *)
(* property; signatures name the relation (result type and argument types in declared order)    *)
(* that must exist in the relation graph and carry exactly this fingerprint.                     *)
(* Tensor-valued definitions (strain as the symmetric part of the displacement gradient,         *)
(* (beta dT/3) I, von Mises, traction = sigma . n, -p I) are stated in Tensor.tla terms at the   *)
(* end and validated on integer tensors.                                                         *)
EXTENDS Mag, Tensor

Quarter == ("2" :> -2)       \* c = 1/2  =>  c^2 = 1/4
Unity   == One
Mono(ret, args, deg2, c2) == [form |-> "mono", ret |-> ret, args |-> args, deg2 |-> deg2, c2 |-> c2, coef |-> <<>>,
                              sig |-> ret]
Lin(ret, args, coef) == [form |-> "linear", ret |-> ret, args |-> args, deg2 |-> <<>>, c2 |-> One, coef |-> coef,
                         sig |-> ret]
P == <<1, 1>>
M == <<-1, 1>>
Definition ==
  [ dynamic_pressure           |-> Mono("DynamicPressure", <<"MassDensity", "Speed">>, <<2, 4>>, Quarter),          \* 1/2 rho v^2
    dynamic_kinematic_pressure |-> Mono("DynamicKinematicPressure", <<"Speed">>, <<4>>, Quarter),                     \* 1/2 v^2
    total_pressure             |-> Lin("TotalPressure", <<"StaticPressure", "DynamicPressure">>, <<P, P>>),           \* p + q
    total_kinematic_pressure   |-> Lin("TotalKinematicPressure", <<"StaticKinematicPressure", "DynamicKinematicPressure">>, <<P, P>>),
    sound_speed_bulk           |-> Mono("SoundSpeed", <<"IsentropicBulkModulus", "MassDensity">>, <<1, -1>>, Unity),  \* sqrt(K/rho)
    sound_speed_pressure       |-> Mono("SoundSpeed", <<"HeatCapacityRatio", "StaticPressure", "MassDensity">>, <<1, 1, -1>>, Unity),   \* sqrt(gamma p/rho)
    sound_speed_temperature    |-> Mono("SoundSpeed", <<"HeatCapacityRatio", "SpecificGasConstant", "Temperature">>, <<1, 1, 1>>, Unity), \* sqrt(gamma R T)
    mach_number                |-> Mono("MachNumber", <<"Speed", "SoundSpeed">>, <<2, -2>>, Unity),                   \* v/a
    reynolds_dynamic           |-> Mono("ReynoldsNumber", <<"MassDensity", "Speed", "Length", "DynamicViscosity">>, <<2, 2, 2, -2>>, Unity), \* rho v L/mu
    reynolds_kinematic         |-> Mono("ReynoldsNumber", <<"Speed", "Length", "KinematicViscosity">>, <<2, 2, -2>>, Unity),              \* v L/nu
    prandtl_diffusivities      |-> Mono("PrandtlNumber", <<"KinematicViscosity", "ThermalDiffusivity">>, <<2, -2>>, Unity),               \* nu/alpha
    prandtl_conductivity       |-> Mono("PrandtlNumber", <<"SpecificIsobaricHeatCapacity", "DynamicViscosity", "ScalarThermalConductivity">>, <<2, 2, -2>>, Unity), \* cp mu/k
    heat_capacity_ratio        |-> Mono("HeatCapacityRatio", <<"IsobaricHeatCapacity", "IsochoricHeatCapacity">>, <<2, -2>>, Unity),     \* cp/cv
    specific_heat_ratio        |-> Mono("HeatCapacityRatio", <<"SpecificIsobaricHeatCapacity", "SpecificIsochoricHeatCapacity">>, <<2, -2>>, Unity),
    gas_constant               |-> Lin("GasConstant", <<"IsobaricHeatCapacity", "IsochoricHeatCapacity">>, <<P, M>>),                     \* cp - cv
    specific_gas_constant      |-> Lin("SpecificGasConstant", <<"SpecificIsobaricHeatCapacity", "SpecificIsochoricHeatCapacity">>, <<P, M>>),
    thermal_diffusivity        |-> Mono("ThermalDiffusivity", <<"ScalarThermalConductivity", "MassDensity", "SpecificIsobaricHeatCapacity">>, <<2, -2, -2>>, Unity), \* k/(rho cp)
    kinematic_viscosity        |-> Mono("KinematicViscosity", <<"DynamicViscosity", "MassDensity">>, <<2, -2>>, Unity),                   \* mu/rho
    period                     |-> Mono("Time", <<"Frequency">>, <<-2>>, Unity),                                                          \* 1/f
    frequency                  |-> Mono("Frequency", <<"Time">>, <<-2>>, Unity),
    period_member              |-> Mono("Time", <<"Frequency">>, <<-2>>, Unity),                                                          \* f.Period()
    frequency_member           |-> Mono("Frequency", <<"Time">>, <<-2>>, Unity),                                                          \* t.Frequency()
    linear_thermal_strain      |-> Mono("ScalarStrain", <<"LinearThermalExpansionCoefficient", "TemperatureDifference">>, <<2, 2>>, Unity) \* alpha dT
  ]
DefinitionOK(d, fp) ==
  IF d.form = "mono"
  THEN fp.cls = "mono" /\ fp.deg2 = d.deg2 /\ fp.has_c /\ AsBag(fp.c2) = d.c2 /\ ~fp.neg
  ELSE fp.cls = "linear" /\ fp.coef = d.coef

(* ---- the same definition solved for another variable ----------------------------------------- *)
(* A monomial definition  ret = c * Prod args^p  is the identity  Prod_t t^(E[t]) = c^2  with doubled  *)
(* exponents E[ret] = 2, E[arg_i] = -deg2_i.  Any other relation among exactly the same quantity   *)
(* types (the member functions and constructors that solve the definition for mu, rho, v ...) must *)
(* state the same identity: its exponent vector is the definition's scaled by m = 2 / E[its result] *)
(* and its constant is the matching power of c.                                                     *)
ExpOf(ret, args, deg2) == [t \in {ret} \cup {args[i] : i \in 1..Len(args)} |->
                             IF t = ret THEN 2 ELSE -deg2[CHOOSE i \in 1..Len(args) : args[i] = t]]
SolvedMonoOK(d, xret, xargs, xfp) ==
  LET Ed == ExpOf(d.ret, d.args, d.deg2)
      Ex == ExpOf(xret, xargs, xfp.deg2)
      k  == Ed[xret]                                   \* Ex = (2 / k) * Ed
  IN /\ xfp.cls = "mono" /\ DOMAIN Ex = DOMAIN Ed /\ k # 0
     /\ \A t \in DOMAIN Ed : Ex[t] * k = 2 * Ed[t]
     /\ xfp.has_c /\ ~xfp.neg /\ BagScale(k, AsBag(xfp.c2)) = BagScale(2, d.c2)
(* linear definitions  ret = Sum k_i arg_i :  ret - Sum k_i arg_i = 0 ; another relation among the same types is a multiple of it *)
RatMulEq(a, b, c) == a[1] * b[1] * c[2] = c[1] * a[2] * b[2]          \* a * b = c on <<num, den>> pairs
VecOf(ret, args, coef) == [t \in {ret} \cup {args[i] : i \in 1..Len(args)} |->
                             IF t = ret THEN <<1, 1>> ELSE LET i == CHOOSE j \in 1..Len(args) : args[j] = t IN <<-coef[i][1], coef[i][2]>>]
SolvedLinearOK(d, xret, xargs, xfp) ==
  LET Vd == VecOf(d.ret, d.args, d.coef)
      Vx == VecOf(xret, xargs, xfp.coef)
  IN /\ xfp.cls = "linear" /\ DOMAIN Vx = DOMAIN Vd /\ Vd[xret][1] # 0
     /\ \A t \in DOMAIN Vd : RatMulEq(Vx[t], Vd[xret], Vd[t])
SolvedOK(d, xret, xargs, xfp) == IF d.form = "mono" THEN SolvedMonoOK(d, xret, xargs, xfp) ELSE SolvedLinearOK(d, xret, xargs, xfp)

(* ---- tensor-valued definitions, in index notation over integers (Tensor.tla) ----------------- *)
(* strain = sym(grad u): 2*eps_ij = a_ij + a_ji, as a symmetric dyad (xx xy xz yy yz zz)          *)
TwiceStrainOfGradient(a) == SymOfDyad(DyadAdd(a, Transpose(a)))
(* volumetric thermal strain (beta dT / 3) I : three times the strain is beta*dT on the diagonal  *)
ThriceVolumetricStrain(bdt) == <<bdt, 0, 0, bdt, 0, bdt>>
(* static pressure as the isotropic stress -p I *)
StressOfPressure(p) == <<-p, 0, 0, -p, 0, -p>>
(* traction = sigma . n *)
TractionOf(s, n) == MatVec(SymEmbed(s), n)
(* von Mises: 2*vm^2 = (sxx-syy)^2 + (syy-szz)^2 + (szz-sxx)^2 + 6 (sxy^2 + sxz^2 + syz^2)         *)
TwiceVonMisesSq(s) == (s[1] - s[4]) * (s[1] - s[4]) + (s[4] - s[6]) * (s[4] - s[6]) + (s[6] - s[1]) * (s[6] - s[1])
                      + 6 * (s[2] * s[2] + s[3] * s[3] + s[5] * s[5])
=============================================================================
