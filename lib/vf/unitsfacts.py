"""K1 for the unit / enumeration tables: dump compiled tables, build the facts trace, validate it
with TLC (spec/Trace_Units.tla), return the verdict records.  Shared by C01, C06, C07, C08, C20."""
import json
import os
import sys

from . import common as C

sys.path.insert(0, os.path.join(C.VERIF, 'extract'))
sys.path.insert(0, C.HARNESS)
import scan    # noqa: E402
import units   # noqa: E402
import gen_dump  # noqa: E402

# verdict classes -> properties that report them
CLASSES = {
    'C01': {'factor_to', 'factor_from', 'std_not_unit_magnitude', 'map_keys', 'map_size', 'dispatch_mismatch'},
    'C06': {'dims_symbol', 'qtype_dims', 'qtype_dims_numeric_types'},
    'C07': {'incoherent', 'incoherent_implemented', 'incoherent_numeric', 'std_system_not_standard_unit', 'related_system', 'consistent_missing', 'consistent_public'},
    'C08': {'abbr_table_size', 'std_not_enumerator', 'map_size', 'abbr_missing', 'abbr_dup', 'abbr_public', 'stream',
            'parse_back', 'map_keys', 'dispatch_mismatch', 'system_abbr_meaning', 'extra_key', 'spelling_target', 'spelling_parse',
            'spelling_meaning', 'nonspelling'},
    'C20': {'abbr_missing', 'map_keys', 'consistent_missing', 'abbr_table_size', 'map_size'},
}


def dump_binary():
    us = scan.scan_units()
    others = scan.scan_other_enums()
    qs = scan.scan_quantities()
    srcs = [C.gen_file(n, t) for n, t in gen_dump.sources(us, others, qs)]
    exe = C.compile_cxx('dump_tables', srcs, flags=['-std=c++17', '-O0', '-w'])
    return exe, us, others, qs


BASE_TYPES = ['Time', 'Length', 'Mass', 'ElectricCurrent', 'Temperature', 'SubstanceAmount']


def hex_frac(s):
    from fractions import Fraction as Fr
    s = s.strip().lower()
    neg = s.startswith('-')
    s = s.lstrip('+-')[2:]
    mant, _, ex = s.partition('p')
    ip, _, fp = mant.partition('.')
    v = Fr(int((ip + fp) or '0', 16), 16 ** len(fp)) * Fr(2) ** int(ex or 0)
    return -v if neg else v


def coherence_numeric(facts, us):
    """C07 numeric layer: the value of one consistent unit in SI, as the real conversion routine computes it in each numeric type, against
    the product of the measured values of the system's base units (exact rational arithmetic on the measured numbers)."""
    import gen_coherence, math
    from fractions import Fraction as Fr
    cons = [e for e in facts if e['e'] == 'Consistent' and e['unit'] != '#none']
    dims = {e['type']: e['dims'] for e in facts if e['e'] == 'Enum' and e.get('kind') == 'unit'}
    names = {e['type']: set(e['names']) for e in facts if e['e'] == 'Enum'}
    hdr = {u['type']: u['header'] for u in us}
    pairs = [(c['type'], c['unit']) for c in cons if c['unit'] in names.get(c['type'], ())]
    if not pairs:
        return []
    srcs = [C.gen_file(n, t) for n, t in gen_coherence.sources(pairs, [hdr[t] for t, _ in pairs])]
    exe = C.compile_cxx('coherence', srcs, flags=['-std=c++17', '-O1', '-fno-fast-math', '-ffp-contract=off', '-w'])
    vals = {}
    for ln in C.run([exe], timeout=120).stdout.decode().splitlines():
        e = json.loads(ln)
        vals[(e['type'], e['unit'], e['num'])] = (hex_frac(e['to']), hex_frac(e['from']))
    base = {(c['system'], c['type']): c['unit'] for c in cons if c['type'] in BASE_TYPES}
    digits = {'f': 24, 'd': 53, 'l': 64}
    out = []
    for c in cons:
        T, s, u = c['type'], c['system'], c['unit']
        d = dims.get(T)
        if d is None or (T, u, 'd') not in vals:
            continue
        for num in 'fdl':
            ok = d[6] == 0
            want = [Fr(1), Fr(1)]
            for i, bt in enumerate(BASE_TYPES):
                if d[i] == 0:
                    continue
                bu = base.get((s, bt))
                if bu is None or (bt, bu, num) not in vals:
                    ok = False
                    break
                for k in (0, 1):
                    want[k] *= vals[(bt, bu, num)][k] ** d[i]
            ev = {'e': 'CoherenceNum', 'type': T, 'system': s, 'unit': u, 'num': num, 'decidable': ok, 'ulps_to': 0, 'ulps_from': 0}
            if ok:
                got = vals[(T, u, num)]
                for k, key in ((0, 'ulps_to'), (1, 'ulps_from')):
                    ulp = Fr(2) ** (math.floor(math.log2(want[k])) + 1 - digits[num]) if want[k] > 0 else Fr(1)
                    ev[key] = min(10 ** 9, math.ceil(abs(got[k] - want[k]) / ulp))
            out.append(ev)
    return out


def run(fuzz_n=0):
    """-> dict(facts, bad, tlc, nonspelling, scanned...)"""
    units.write_atoms_tla()
    exe, us, others, qs = dump_binary()
    r = C.run([exe], timeout=300)
    lines = r.stdout.decode('utf-8').splitlines()
    if fuzz_n:
        r2 = C.run([exe, 'fuzz', str(C.SEED), str(fuzz_n)], timeout=600)
        lines += r2.stdout.decode('utf-8', errors='replace').splitlines()
    facts, ns = units.build_facts(lines, us, others)
    facts += coherence_numeric(facts, us)
    wd = C.work_dir('units')
    fp = C.write_ndjson(os.path.join(wd, 'facts.ndjson'), facts)
    outp = os.path.join(wd, 'bad.json')
    res = C.run_tlc('Trace_Units', 'Trace_Units.cfg', env={'FACTS': fp, 'OUT': outp}, workers=1, timeout=900)
    accepted = res.ok and os.path.exists(outp)
    out = {'facts': facts, 'tlc': res, 'accepted': accepted, 'nonspelling': ns, 'units': us, 'others': others,
           'quantities': qs, 'workdir': wd, 'bad': [], 'summary': {}}
    if accepted:
        j = json.load(open(outp, encoding='utf-8'))
        out['bad'] = j['bad']
        out['summary'] = {k: j[k] for k in ('events', 'units', 'consistent')}
        out['unit_table'] = j['unit_table']
    else:
        # longest matched prefix + next line
        out['rejected_at'] = res.distinct - 1
    return out


def report(chk, pid, out, extra_classes=()):
    """Turn verdict records of the classes belonging to property pid into violations."""
    res = out['tlc']
    chk.add_tlc('Trace_Units(K1 facts)', res, traces=1, events=len(out['facts']))
    if not out['accepted']:
        k = out.get('rejected_at', 0)
        nxt = out['facts'][k] if 0 <= k < len(out['facts']) else None
        chk.violation(f'trace_rejected:{(nxt or {}).get("e")}:{(nxt or {}).get("type")}:{(nxt or {}).get("name", (nxt or {}).get("text"))}',
                      f'table facts rejected by Trace_Units at event {k}: {json.dumps(nxt)[:300]}', nxt)
        return
    cls = CLASSES[pid] | set(extra_classes)
    for b in out['bad']:
        if b['cls'].startswith('inconclusive'):
            if pid in ('C01', 'C08', 'C06'):
                chk.note_inconclusive(f"{b['cls']}:{b['type']}:{b['key']}")
            continue
        if b['cls'] in cls:
            chk.violation(f"{b['cls']}:{b['type']}:{b['key']}", f"{b['cls']} {b['type']} {b['key']} -> {b['detail']}", b)


def write_mags(out, path):
    """Oracle file for the numeric harnesses: exact magnitude (num den pi-exponent) and offset of every
    unit, evaluated from the bags TLC emitted (unit_table)."""
    def bag(b):
        if isinstance(b, list):   # empty function serialised as []
            b = {}
        return scan.bag_value({k: int(v) for k, v in b.items()})
    with open(path, 'w') as f:
        for u in out['unit_table']:
            q, k = bag(u['mag'])
            if u['has_off']:
                o, ok = bag(u['off'])
                assert ok == 0
            else:
                o = 0
            from fractions import Fraction as Fr
            o = Fr(o)
            f.write(f"{u['type']} {u['name']} {q.numerator} {q.denominator} {k} {1 if u['has_off'] else 0} {o.numerator} {o.denominator}\n")
    return path
