------------------------------- MODULE Definitions -------------------------------
(* C18: the named physical definitions the library implements, as textbook formulas.             *)
(* Scalar definitions are monomials  c * Prod x_i^(p_i)  (deg2 = doubled exponents, c2 = bag of  *)
(* c^2) or linear forms  Sum k_i x_i.  Hand-written from the textbook formulas quoted in the     *)
(* property; signatures name the relation (result type and argument types in declared order)    *)
(* that must exist in the relation graph and carry exactly this fingerprint.                     *)
(* Tensor-valued definitions (strain as the symmetric part of the displacement gradient,         *)
(* (beta dT/3) I, von Mises, traction = sigma . n, -p I) are stated in Tensor.tla terms at the   *)
(* end and validated on integer tensors.                                                         *)
EXTENDS Mag, Tensor

Quarter == ("2" :> -2)       \* c = 1/2  =>  c^2 = 1/4
Unity   == One
Mono(ret, args, deg2, c2) == [form |-> "mono", ret |-> ret, args |-> args, deg2 |-> deg2, c2 |-> c2, coef |-> <<>>,
                              sig |-> ret]
Lin(ret, args, coef) == [form |-> "linear", ret |-> ret, args |-> args, deg2 |-> <<>>, c2 |-> One, coef |-> coef,
                         sig |-> ret]
P == <<1, 1>>
M == <<-1, 1>>
Definition ==
  [ dynamic_pressure           |-> Mono("DynamicPressure", <<"MassDensity", "Speed">>, <<2, 4>>, Quarter),          \* 1/2 rho v^2
    dynamic_kinematic_pressure |-> Mono("DynamicKinematicPressure", <<"Speed">>, <<4>>, Quarter),                     \* 1/2 v^2
    total_pressure             |-> Lin("TotalPressure", <<"StaticPressure", "DynamicPressure">>, <<P, P>>),           \* p + q
    total_kinematic_pressure   |-> Lin("TotalKinematicPressure", <<"StaticKinematicPressure", "DynamicKinematicPressure">>, <<P, P>>),
    sound_speed_bulk           |-> Mono("SoundSpeed", <<"IsentropicBulkModulus", "MassDensity">>, <<1, -1>>, Unity),  \* sqrt(K/rho)
    sound_speed_pressure       |-> Mono("SoundSpeed", <<"HeatCapacityRatio", "StaticPressure", "MassDensity">>, <<1, 1, -1>>, Unity),   \* sqrt(gamma p/rho)
    sound_speed_temperature    |-> Mono("SoundSpeed", <<"HeatCapacityRatio", "SpecificGasConstant", "Temperature">>, <<1, 1, 1>>, Unity), \* sqrt(gamma R T)
    mach_number                |-> Mono("MachNumber", <<"Speed", "SoundSpeed">>, <<2, -2>>, Unity),                   \* v/a
    reynolds_dynamic           |-> Mono("ReynoldsNumber", <<"MassDensity", "Speed", "Length", "DynamicViscosity">>, <<2, 2, 2, -2>>, Unity), \* rho v L/mu
    reynolds_kinematic         |-> Mono("ReynoldsNumber", <<"Speed", "Length", "KinematicViscosity">>, <<2, 2, -2>>, Unity),              \* v L/nu
    prandtl_diffusivities      |-> Mono("PrandtlNumber", <<"KinematicViscosity", "ThermalDiffusivity">>, <<2, -2>>, Unity),               \* nu/alpha
    prandtl_conductivity       |-> Mono("PrandtlNumber", <<"SpecificIsobaricHeatCapacity", "DynamicViscosity", "ScalarThermalConductivity">>, <<2, 2, -2>>, Unity), \* cp mu/k
    heat_capacity_ratio        |-> Mono("HeatCapacityRatio", <<"IsobaricHeatCapacity", "IsochoricHeatCapacity">>, <<2, -2>>, Unity),     \* cp/cv
    specific_heat_ratio        |-> Mono("HeatCapacityRatio", <<"SpecificIsobaricHeatCapacity", "SpecificIsochoricHeatCapacity">>, <<2, -2>>, Unity),
    gas_constant               |-> Lin("GasConstant", <<"IsobaricHeatCapacity", "IsochoricHeatCapacity">>, <<P, M>>),                     \* cp - cv
    specific_gas_constant      |-> Lin("SpecificGasConstant", <<"SpecificIsobaricHeatCapacity", "SpecificIsochoricHeatCapacity">>, <<P, M>>),
    thermal_diffusivity        |-> Mono("ThermalDiffusivity", <<"ScalarThermalConductivity", "MassDensity", "SpecificIsobaricHeatCapacity">>, <<2, -2, -2>>, Unity), \* k/(rho cp)
    kinematic_viscosity        |-> Mono("KinematicViscosity", <<"DynamicViscosity", "MassDensity">>, <<2, -2>>, Unity),                   \* mu/rho
    period                     |-> Mono("Time", <<"Frequency">>, <<-2>>, Unity),                                                          \* 1/f
    frequency                  |-> Mono("Frequency", <<"Time">>, <<-2>>, Unity),
    period_member              |-> Mono("Time", <<"Frequency">>, <<-2>>, Unity),                                                          \* f.Period()
    frequency_member           |-> Mono("Frequency", <<"Time">>, <<-2>>, Unity),                                                          \* t.Frequency()
    linear_thermal_strain      |-> Mono("ScalarStrain", <<"LinearThermalExpansionCoefficient", "TemperatureDifference">>, <<2, 2>>, Unity) \* alpha dT
  ]
DefinitionOK(d, fp) ==
  IF d.form = "mono"
  THEN fp.cls = "mono" /\ fp.deg2 = d.deg2 /\ fp.has_c /\ AsBag(fp.c2) = d.c2 /\ ~fp.neg
  ELSE fp.cls = "linear" /\ fp.coef = d.coef

(* ---- tensor-valued definitions, in index notation over integers (Tensor.tla) ----------------- *)
(* strain = sym(grad u): 2*eps_ij = a_ij + a_ji, as a symmetric dyad (xx xy xz yy yz zz)          *)
TwiceStrainOfGradient(a) == SymOfDyad(DyadAdd(a, Transpose(a)))
(* volumetric thermal strain (beta dT / 3) I : three times the strain is beta*dT on the diagonal  *)
ThriceVolumetricStrain(bdt) == <<bdt, 0, 0, bdt, 0, bdt>>
(* static pressure as the isotropic stress -p I *)
StressOfPressure(p) == <<-p, 0, 0, -p, 0, -p>>
(* traction = sigma . n *)
TractionOf(s, n) == MatVec(SymEmbed(s), n)
(* von Mises: 2*vm^2 = (sxx-syy)^2 + (syy-szz)^2 + (szz-sxx)^2 + 6 (sxy^2 + sxz^2 + syz^2)         *)
TwiceVonMisesSq(s) == (s[1] - s[4]) * (s[1] - s[4]) + (s[4] - s[6]) * (s[4] - s[6]) + (s[6] - s[1]) * (s[6] - s[1])
                      + 6 * (s[2] * s[2] + s[3] * s[3] + s[5] * s[5])
=============================================================================
