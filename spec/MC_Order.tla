------------------------------- MODULE MC_Order -------------------------------
(* The lexicographic order of Order.tla is a strict total order on sequences of equal length, and *)
(* the six derived operators are mutually consistent (checked for all triples of sequences of     *)
(* equal length 1..4 over three ranks).  FirstDifference ties the recursive definition to the     *)
(* first-difference form Lt of Order_proofs.tla, whose laws tlapm proves for every length and all  *)
(* integer ranks.                                                                                  *)
EXTENDS Order, TLC
VARIABLES a, b, c
S(n) == [1..n -> 0..2]
Init == \E n \in 1..4 : a \in S(n) /\ b \in S(n) /\ c \in S(n)
Next == UNCHANGED <<a, b, c>>
Spec == Init /\ [][Next]_<<a, b, c>>
Tri == (IF LexLess(a, b) THEN 1 ELSE 0) + (IF LexLess(b, a) THEN 1 ELSE 0) + (IF a = b THEN 1 ELSE 0) = 1
Trans == LexLess(a, b) /\ LexLess(b, c) => LexLess(a, c)
Derived == LET k == Compare(a, b) IN k.le = (k.lt \/ k.eq) /\ k.ge = (k.gt \/ k.eq) /\ k.ne = ~k.eq /\ (k.lt => ~k.gt)
FirstDifference == LexLess(a, b) <=> \E i \in 1..Len(a) : a[i] < b[i] /\ \A j \in 1..(i - 1) : a[j] = b[j]
=============================================================================
