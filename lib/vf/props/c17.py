"""C17 — quantities are bare numbers in memory."""
import os

from .. import common as C, battery as B, slots as SL


def run(tier):
    chk = C.Check('C17', tier)
    exe, qs, ks = B.build()
    wd = C.work_dir('c17')
    bs, stats, sims = B.generate_behaviours(300 if tier == 'quick' else 3000)
    for (n, caps), r in sorted(sims.items()):
        chk.add_tlc(f'Store simulate ncomp={n} {caps}', r)
    suite = B.write_suite(os.path.join(wd, 'suite.txt'), bs)
    evs = B.run_modes(exe, ks, ['layout']) + B.run_modes(exe, ks, ['replay'], suite=suite) + B.run_modes(exe, ks, ['mutators'], n=300 if tier == 'quick' else 20000)
    res, result = B.validate(evs, qs, wd, 'c17')
    B.report(chk, 'Trace_Battery(layout facts + mutator/accessor histories)', evs, res, result, {'layout', 'replay', 'mutator'})
    lay = [e for e in evs if e['e'] == 'Layout']
    rp = [e for e in evs if e['e'] == 'Replay']
    chk.cov['traces_validated_against_impl'] += sum(e['behaviours'] for e in rp)
    chk.layer('A.layout', instantiations=len(lay), quantity_types=len({e['type'] for e in lay}),
              note='sizeof = NComp*sizeof(num), alignof, trivially copyable, standard layout, memory image = component sequence, array stride, Zero() = +0')
    mu = [e for e in evs if e['e'] == 'Mutator']
    chk.layer('B.mutators', events=len(mu), value_sets=sum(e['n'] for e in mu), note='random full-precision values over the whole exponent range: construction, SetValue and MutableValue must store them bit for bit')
    chk.layer('A.histories', behaviours=len(bs), replays=sum(e['behaviours'] for e in rp), steps=sum(e['steps'] for e in rp),
              note='SetValue / MutableValue / Value / Zero / copies in TLC-generated histories; after every step Value() and the memory image must equal the specification state')
    chk.count(evaluations=len(lay) + sum(e['steps'] for e in rp), distinct=len(lay) + len(bs))
    SL.run(tier, chk, 'C17')
    chk.cov['rule'] = 'one layout fact per (quantity type or raw shape, numeric type): 96 x 3; histories as in C04 restricted to what the type supports'
    chk.cov['exhaustive'] = True
    chk.sample(lay[0])
    chk.sample(rp[0])
    chk.assumptions += ['memory image read with memcpy of the object representation (valid for trivially copyable types)']
    return chk.finish()
