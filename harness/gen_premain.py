"""Generates the quantity-level pre-main programs (C19): one program per slice of the quantity typelist; every program defines,
after the includes, one namespace-scope object per (quantity type, numeric type) whose initialiser exercises the type."""
import qgen


def sources(qs, units, nparts=8):
    ub = {u['type']: u for u in units}
    names = [n for n in sorted(qs) if n not in qgen.NORMALISED]
    progs = []
    for k in range(nparts):
        mine = names[k::nparts]
        out = [qgen.includes({n: qs[n] for n in mine}), '#include "premain.hpp"', 'using namespace PhQ;']
        decl, rep = [], []
        for n in mine:
            q = qs[n]
            out.append('template<class TT> struct Ad_%s { using T = TT; using Q = %s<TT>; static constexpr int N = %d; static Q make(const T* x){ return %s; } };'
                       % (n, n, qgen.NCOMP[q['shape']], qgen.mk(n, qs, 'x', '0')))
            if q['unit']:
                u = ub[q['unit']]
                std = u.get('std_scanned') or u['names'][0]
                non = [x for x in u['names'] if x != std]
                uv = 'Unit::%s::%s' % (q['unit'], non[len(n) % len(non)] if non else std)
            else:
                uv = '0'
            for T, tag in (('float', 'f'), ('double', 'd'), ('long double', 'l')):
                decl.append('static const pm::Rec r_%s_%s = pm::compute<Ad_%s<%s>>(%s);' % (n, tag, n, T, uv))
                rep.append('  pm::report<Ad_%s<%s>>(compiler, opt, "%s", r_%s_%s, %s);' % (n, T, n, n, tag, uv))
        out += decl
        out.append('int main(int argc, char** argv){ const char* compiler = argc>1? argv[1] : "?"; const char* opt = argc>2? argv[2] : "?";')
        out += rep
        out.append('  return 0; }')
        progs.append(('premain_%d.cpp' % k, '\n'.join(out) + '\n'))
    return progs
