SPECIFICATION Spec
CONSTANTS BudgetUlps = 8  BudgetResidual = 64
POSTCONDITION Accepted
CHECK_DEADLOCK FALSE
