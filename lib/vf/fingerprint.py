"""Fingerprints of relations, measured on the real code through the `relations` evaluator (double):
per-argument homogeneity degrees (half-integers), the constant of scalar monomials (c^2 as a small
rational), or integer coefficients of a linear form.  A proposal becomes a fingerprint only after it
reproduces the relation at a second, independent base point; otherwise the relation is 'other'."""
import math
import random
import sys
import os
from fractions import Fraction as Fr

from . import common as C

sys.path.insert(0, os.path.join(C.VERIF, 'extract'))
sys.path.insert(0, C.HARNESS)
import scan   # noqa: E402
import qgen   # noqa: E402


def _base(rel, rnd):
    v = []
    for a, n in zip(rel['args'], rel['asz']):
        comps = [rnd.uniform(1.3, 2.7) * rnd.choice((1, 1, -1)) for _ in range(n)]
        if n == 1:
            comps = [abs(comps[0])]
        if n == 6:   # keep symmetric tensors comfortably non-singular and positive on the diagonal
            comps[0], comps[3], comps[5] = abs(comps[0]) + 3, abs(comps[3]) + 3, abs(comps[5]) + 3
        v.append(comps)
    return v


def _flat(vals):
    out = []
    for comps in vals:
        out += list(comps) + [0.0] * (9 - len(comps))
    return out


def _scaled(vals, a, s):
    return [[x * s for x in c] if i == a else c for i, c in enumerate(vals)]


def _degree(f0, fs, s):
    """homogeneity degree from f(s*A)/f(A), consistent over all significant output components"""
    mx = max(abs(x) for x in f0) if f0 else 0
    if mx == 0 or not all(map(math.isfinite, f0 + fs)):
        return None
    ps = []
    for x0, x1 in zip(f0, fs):
        if abs(x0) > 1e-9 * mx:
            r = x1 / x0
            if r <= 0:
                return None
            ps.append(math.log(r, s))
    if not ps or max(ps) - min(ps) > 1e-9:
        return None
    p2 = round(2 * ps[0])
    if abs(2 * ps[0] - p2) > 1e-9 or abs(p2) > 12:
        return None
    return p2          # doubled degree


def _c2_bag(c):
    """c -> bag of c^2 as small rational, or None"""
    c2 = Fr(c * c).limit_denominator(4096)
    if c2 <= 0 or abs(float(c2) - c * c) > 1e-12 * max(1.0, c * c):
        return None
    if max(c2.numerator, c2.denominator) > 100000:
        return None
    return scan.bag_of(c2)


def fingerprints(ev, rels, qs, seed):
    """-> dict id -> fingerprint {'cls': mono|linear|other, 'deg2': [...], 'c2': bag|None, 'neg': bool, 'coef': [...]}"""
    rnd = random.Random(seed)
    out = {}
    # --- round 1: base values and scalings, batched
    bases = {}
    q = []
    index = []
    for r in rels:
        for rep in (0, 1):
            b = _base(r, rnd)
            bases[(r['id'], rep)] = b
            q.append((r['id'], 'd', _flat(b)))
            index.append((r['id'], rep, 'f0', None))
            for a in range(len(r['args'])):
                if r['args'][a] in qgen.NORMALISED:
                    continue
                for s in (4.0, 16.0):
                    q.append((r['id'], 'd', _flat(_scaled(b, a, s))))
                    index.append((r['id'], rep, 's', (a, s)))
                q.append((r['id'], 'd', _flat(_scaled(b, a, 0.0))))
                index.append((r['id'], rep, 'z', a))
    res = ev.batch(q)
    vals = {}
    for (rid, rep, kind, x), v in zip(index, res):
        vals[(rid, rep, kind, x)] = v
    for r in rels:
        rid = r['id']
        fp = {'cls': 'other', 'deg2': [], 'c2': None, 'neg': False, 'coef': []}
        ok = True
        degs = None
        for rep in (0, 1):
            f0 = vals[(rid, rep, 'f0', None)]
            d = []
            for a in range(len(r['args'])):
                if r['args'][a] in qgen.NORMALISED:
                    d.append(0)
                    continue
                p4 = _degree(f0, vals[(rid, rep, 's', (a, 4.0))], 4.0)
                p16 = _degree(f0, vals[(rid, rep, 's', (a, 16.0))], 16.0)
                d.append(p4 if (p4 is not None and p4 == p16) else None)
            if degs is None:
                degs = d
            elif degs != d:
                ok = False
        if ok and degs is not None and all(x is not None for x in degs):
            fp['cls'] = 'mono'
            fp['deg2'] = degs
            if all(n == 1 for n in r['asz']) and r['rsz'] == 1:
                cs = []
                for rep in (0, 1):
                    f0 = vals[(rid, rep, 'f0', None)][0]
                    prod = 1.0
                    for a, p2 in enumerate(degs):
                        prod *= abs(bases[(rid, rep)][a][0]) ** (p2 / 2.0)
                    cs.append(f0 / prod)
                if abs(cs[0] - cs[1]) <= 1e-12 * abs(cs[0]):
                    fp['c2'] = _c2_bag(cs[0])
                    fp['neg'] = cs[0] < 0
                    fp['c'] = cs[0]
        else:
            # linear form with equal shapes:  f = sum k_a * A_a  (component-wise)
            if all(n == r['rsz'] for n in r['asz']):
                coefs = []
                good = True
                for rep in (0, 1):
                    f0 = vals[(rid, rep, 'f0', None)]
                    ks = []
                    for a in range(len(r['args'])):
                        if r['args'][a] in qgen.NORMALISED:
                            good = False
                            break
                        f4 = vals[(rid, rep, 's', (a, 4.0))]
                        fz = vals[(rid, rep, 'z', a)]
                        b = bases[(rid, rep)][a]
                        k1 = [(y4 - y0) / (3 * x) for y4, y0, x in zip(f4, f0, b)]
                        k2 = [(y0 - yz) / x for y0, yz, x in zip(f0, fz, b)]
                        if not all(map(math.isfinite, k1 + k2)) or max(abs(p - q2) for p, q2 in zip(k1, k2)) > 1e-9 or max(k1) - min(k1) > 1e-9:
                            good = False
                            break
                        kk = Fr(k1[0]).limit_denominator(64)
                        if abs(float(kk) - k1[0]) > 1e-9:
                            good = False
                            break
                        ks.append(kk)
                    if not good:
                        break
                    # reproduce
                    for j in range(r['rsz']):
                        if abs(sum(float(k) * bases[(rid, rep)][a][j] for a, k in enumerate(ks)) - f0[j]) > 1e-9 * max(1.0, abs(f0[j])):
                            good = False
                    coefs.append(ks)
                if good and len(coefs) == 2 and coefs[0] == coefs[1]:
                    fp['cls'] = 'linear'
                    fp['coef'] = [[k.numerator, k.denominator] for k in coefs[0]]
        out[rid] = fp
    return out
