"""Header scanner: enum bodies, conversion bodies (parsed to exact affine maps over Q x pi^k),
table specialisation kinds, quantity class declarations.  A scanner miss is 'inconclusive',
never a verdict (DESIGN 7.1)."""
import glob
import os
import re
from fractions import Fraction as Fr


def strip_comments(s):
    s = re.sub(r'/\*.*?\*/', lambda m: ' ' if 'value' not in m.group(0) else ' ', s, flags=re.S)
    s = re.sub(r'//[^\n]*', '', s)
    return s


def factor(n):
    n = int(n)
    f = {}
    p = 2
    while p * p <= n:
        while n % p == 0:
            f[p] = f.get(p, 0) + 1
            n //= p
        p += 1 if p == 2 else 2
    if n > 1:
        f[n] = f.get(n, 0) + 1
    return f


def bag_of(q, k=0):
    """Positive rational q times pi^k -> prime exponent bag with string keys."""
    q = Fr(q)
    assert q > 0
    b = {}
    for p, e in factor(q.numerator).items():
        b[str(p)] = b.get(str(p), 0) + e
    for p, e in factor(q.denominator).items():
        b[str(p)] = b.get(str(p), 0) - e
    if k:
        b['pi'] = k
    return {p: e for p, e in b.items() if e}


def bag_value(b):
    """bag -> (Fraction, pi exponent)"""
    q = Fr(1)
    k = 0
    for p, e in b.items():
        if p == 'pi':
            k = e
        else:
            q *= Fr(int(p)) ** e
    return q, k


class Num:
    """q * pi^k, or a sum of such with different k (only k-homogeneous sums are supported)."""

    def __init__(self, q, k=0):
        self.q, self.k = Fr(q), k

    def __mul__(self, o):
        return Num(self.q * o.q, self.k + o.k)

    def __truediv__(self, o):
        return Num(self.q / o.q, self.k - o.k)

    def add(self, o, sign=1):
        if self.q == 0:
            return Num(sign * o.q, o.k)
        if o.q == 0:
            return self
        if self.k != o.k:
            raise ValueError('inhomogeneous pi powers')
        return Num(self.q + sign * o.q, self.k)

    def pow(self, n):
        return Num(self.q ** n, self.k * n)


class Aff:
    """a*value + b with a, b Num."""

    def __init__(self, a, b):
        self.a, self.b = a, b

    @staticmethod
    def const(n):
        return Aff(Num(0), n)

    def is_const(self):
        return self.a.q == 0

    def mul(self, o):
        if self.is_const():
            return Aff(o.a * self.b if o.a.q else Num(0), o.b * self.b if o.b.q else Num(0))
        if o.is_const():
            return o.mul(self)
        raise ValueError('nonlinear')

    def div(self, o):
        if not o.is_const():
            raise ValueError('nonlinear')
        return Aff(self.a / o.b if self.a.q else Num(0), self.b / o.b if self.b.q else Num(0))

    def add(self, o, sign=1):
        return Aff(self.a.add(o.a, sign), self.b.add(o.b, sign))


TOK = re.compile(r'\s*(static_cast<NumericType>|Pi<NumericType>|std::pow|value|[0-9]*\.?[0-9]+(?:[eE][-+]?[0-9]+)?[LlFf]?|[-+*/(),])')


def _tokens(s):
    pos = 0
    out = []
    s = s.strip()
    while pos < len(s):
        m = TOK.match(s, pos)
        if not m:
            raise ValueError('token: ' + s[pos:pos + 20])
        out.append(m.group(1))
        pos = m.end()
    return out


class _P:
    def __init__(self, toks):
        self.t, self.i = toks, 0

    def peek(self):
        return self.t[self.i] if self.i < len(self.t) else None

    def eat(self, x=None):
        t = self.peek()
        if x is not None and t != x:
            raise ValueError(f'expected {x} got {t}')
        self.i += 1
        return t

    def expr(self):
        v = self.term()
        while self.peek() in ('+', '-'):
            op = self.eat()
            v = v.add(self.term(), 1 if op == '+' else -1)
        return v

    def term(self):
        v = self.unary()
        while self.peek() in ('*', '/'):
            op = self.eat()
            r = self.unary()
            v = v.mul(r) if op == '*' else v.div(r)
        return v

    def unary(self):
        if self.peek() == '-':
            self.eat()
            return Aff.const(Num(-1)).mul(self.unary())
        if self.peek() == '+':
            self.eat()
            return self.unary()
        return self.atom()

    def atom(self):
        t = self.eat()
        if t == '(':
            v = self.expr()
            self.eat(')')
            return v
        if t == 'static_cast<NumericType>':
            self.eat('(')
            v = self.expr()
            self.eat(')')
            return v
        if t == 'Pi<NumericType>':
            return Aff.const(Num(1, 1))
        if t == 'value':
            return Aff(Num(1), Num(0))
        if t == 'std::pow':
            self.eat('(')
            b = self.expr()
            self.eat(',')
            e = self.expr()
            self.eat(')')
            if not b.is_const() or not e.is_const() or e.b.q.denominator != 1 or e.b.k:
                raise ValueError('pow')
            return Aff.const(b.b.pow(int(e.b.q)))
        if t is not None and re.match(r'[0-9.]', t):
            return Aff.const(Num(Fr(t.rstrip('LlFf'))))
        raise ValueError(f'atom {t}')


def parse_body(body):
    """Body of a Conversion<...>::To/FromStandard -> Aff (a*value+b) or None if not understood.
    Statements are applied in order."""
    body = body.strip()
    cur = Aff(Num(1), Num(0))
    if not body:
        return cur
    try:
        for st in [s.strip() for s in body.split(';') if s.strip()]:
            m = re.match(r'value\s*(\*=|/=|\+=|-=|=)\s*(.*)$', st, re.S)
            if not m:
                return None
            p = _P(_tokens(m.group(2)))
            e = p.expr()
            if p.peek() is not None:
                return None
            op = m.group(1)
            if op == '=':
                # substitute value := cur in e
                cur = Aff(e.a * cur.a if e.a.q else Num(0), (e.a * cur.b if e.a.q and cur.b.q else Num(0)).add(e.b))
            elif op == '*=':
                cur = cur.mul(e)
            elif op == '/=':
                cur = cur.div(e)
            elif op == '+=':
                cur = cur.add(e)
            else:
                cur = cur.add(e, -1)
        return cur
    except (ValueError, ZeroDivisionError, IndexError):
        return None


def aff_json(a):
    """Aff -> {'slope': bag, 'off': [sign, bag]|None} ; None if not representable."""
    if a is None or a.a.q <= 0:
        return None
    off = None
    if a.b.q != 0:
        off = {'neg': a.b.q < 0, 'bag': bag_of(abs(a.b.q), a.b.k)}
    return {'slope': bag_of(a.a.q, a.a.k), 'off': off}


def _find_block(text, start):
    """text[start] is '{' -> index after the matching '}'."""
    depth = 0
    i = start
    in_str = False
    while i < len(text):
        c = text[i]
        if in_str:
            if c == '\\':
                i += 1
            elif c == '"':
                in_str = False
        elif c == '"':
            in_str = True
        elif c == '{':
            depth += 1
        elif c == '}':
            depth -= 1
            if depth == 0:
                return i + 1
        i += 1
    raise ValueError('unbalanced')


def scan_unit_header(path):
    src = open(path, encoding='utf-8').read()
    s2 = strip_comments(src)
    m = re.search(r'enum class (\w+)\s*:\s*int8_t\s*\{(.*?)\};', s2, re.S)
    T = m.group(1)
    names = [x.strip().split('=')[0].strip() for x in m.group(2).split(',') if x.strip()]
    out = {'type': T, 'header': os.path.basename(path), 'names': names, 'bodies': {}, 'kinds': {}}
    m = re.search(r'Standard<\s*Unit::\w+\s*>\s*\{\s*Unit::\w+::(\w+)\s*\}', s2)
    out['std_scanned'] = m.group(1) if m else None
    for mm in re.finditer(r'Conversion<\s*Unit::(\w+),\s*Unit::\w+::(\w+)\s*>::\s*(FromStandard|ToStandard)\s*\(\s*NumericType&\s*(\w*)\s*\)\s*noexcept\s*\{', s2):
        end = _find_block(s2, mm.end() - 1)
        out['bodies'][(mm.group(2), mm.group(3))] = ' '.join(s2[mm.end():end - 1].split())
    # table kinds (for StaticInit): explicit specialisation "template <>" vs partial "template <typename NumericType>"
    for tbl in ('Abbreviations', 'Spellings', 'ConsistentUnits', 'RelatedUnitSystems', 'MapOfConversionsFromStandard',
                'MapOfConversionsToStandard'):
        mm = re.search(r'template\s*<([^>]*)>\s*inline\s+((?:constexpr\s+)?)(?:const\s+)?[^;{=]*?\b' + tbl + r'<\s*Unit::' + T + r'\b', s2, re.S)
        if mm:
            out['kinds'][tbl] = 'constant' if mm.group(2) else ('ordered' if mm.group(1).strip() == '' else 'unordered')
    return out


def unit_headers():
    inc = os.path.join(os.environ.get('PHQ_ROOT', '/repo'), 'include', 'PhQ', 'Unit')
    return sorted(glob.glob(inc + '/*.hpp'))


def scan_units():
    return [scan_unit_header(p) for p in unit_headers()]


def scan_other_enums():
    inc = os.path.join(os.environ.get('PHQ_ROOT', '/repo'), 'include', 'PhQ')
    out = []
    s2 = strip_comments(open(inc + '/UnitSystem.hpp', encoding='utf-8').read())
    m = re.search(r'enum class UnitSystem\s*:\s*int8_t\s*\{(.*?)\};', s2, re.S)
    out.append({'type': 'UnitSystem', 'cpp': 'PhQ::UnitSystem', 'names': [x.strip() for x in m.group(1).split(',') if x.strip()]})
    s2 = strip_comments(open(inc + '/ConstitutiveModel.hpp', encoding='utf-8').read())
    m = re.search(r'enum class Type\s*:\s*int8_t\s*\{(.*?)\};', s2, re.S)
    out.append({'type': 'ConstitutiveModelType', 'cpp': 'PhQ::ConstitutiveModel::Type',
                'names': [x.strip() for x in m.group(1).split(',') if x.strip()]})
    return out


BASES = {'DimensionalScalar': 'Scalar', 'DimensionlessScalar': 'Scalar', 'DimensionalPlanarVector': 'PlanarVector',
         'DimensionlessPlanarVector': 'PlanarVector', 'DimensionalVector': 'Vector', 'DimensionlessVector': 'Vector',
         'DimensionalSymmetricDyad': 'SymmetricDyad', 'DimensionlessSymmetricDyad': 'SymmetricDyad',
         'DimensionalDyad': 'Dyad', 'DimensionlessDyad': 'Dyad'}
NCOMP = {'Scalar': 1, 'PlanarVector': 2, 'Vector': 3, 'SymmetricDyad': 6, 'Dyad': 9}


def scan_quantities():
    """name -> {'base':..., 'shape':..., 'unit': unit type or None, 'header':...} for the quantity classes."""
    inc = os.path.join(os.environ.get('PHQ_ROOT', '/repo'), 'include', 'PhQ')
    q = {}
    for f in sorted(os.listdir(inc)):
        if not f.endswith('.hpp'):
            continue
        s = strip_comments(open(os.path.join(inc, f), encoding='utf-8').read())
        for m in re.finditer(r'class (\w+)\s*:\s*public (Dimension\w+)<(?:Unit::(\w+),\s*)?NumericType>', s):
            if m.group(2) in BASES:
                q[m.group(1)] = {'base': m.group(2), 'shape': BASES[m.group(2)], 'unit': m.group(3), 'header': f}
    return q


if __name__ == '__main__':
    us = scan_units()
    n = bad = 0
    for u in us:
        for (name, d), b in u['bodies'].items():
            n += 1
            if aff_json(parse_body(b)) is None:
                bad += 1
                print('unparsed', u['type'], name, d, b)
    print(len(us), 'unit types', sum(len(u['names']) for u in us), 'units', n, 'bodies', bad, 'unparsed')
    print(len(scan_quantities()), 'quantity types', scan_other_enums())
    print(us[0]['kinds'])



def scan_template_static_members():
    """Out-of-class definitions of static data members of class templates with an initialiser that is not constexpr
    (template <...> [const] T Class<...>::name{...};): like primary variable templates, their dynamic initialisation is unordered."""
    inc = os.path.join(os.environ.get('PHQ_ROOT', '/repo'), 'include', 'PhQ')
    out = []
    for f in sorted(glob.glob(inc + '/**/*.hpp', recursive=True)):
        s = strip_comments(open(f, encoding='utf-8').read())
        for m in re.finditer(r'template\s*<[^;{}()]*?>\s*(?!inline\b)(?!constexpr\b)((?:const\s+)?[\w:<>,\s]+?)\s+((?:\w+::)*\w+<[^;{}()]*?>::(\w+))\s*(\{|=)', s):
            if 'constexpr' in m.group(1) or 'operator' in m.group(2):
                continue
            out.append(m.group(2).replace(' ', ''))
    return sorted(set(out))


def scan_variable_templates():
    """Every namespace-scope variable template (primary, explicit or partial specialisation) defined in the headers, with its
    initialisation kind: 'constant' (constexpr), 'ordered' (explicit specialisation, template <>), 'unordered' (a primary
    template or partial specialisation with an initialiser: its instantiations are initialised in no defined order), or
    'decl' (declaration without initialiser).  -> {name: {kind: count}}"""
    inc = os.path.join(os.environ.get('PHQ_ROOT', '/repo'), 'include', 'PhQ')
    out = {}
    for f in sorted(glob.glob(inc + '/**/*.hpp', recursive=True)):
        s = strip_comments(open(f, encoding='utf-8').read())
        for m in re.finditer(r'template\s*<([^<>]*(?:<[^<>]*>[^<>]*)*)>\s*inline\s+((?:constexpr\s+)?)((?:const\s+)?)', s):
            params, cx = m.group(1), m.group(2)
            i = m.end()
            depth = 0
            j = i
            while j < len(s):
                c = s[j]
                if c == '<':
                    depth += 1
                elif c == '>':
                    depth -= 1
                elif c == '(' :
                    break
                elif depth == 0 and c in '{=;':
                    break
                j += 1
            if j >= len(s) or s[j] == '(':
                continue                      # a function template
            decl = ' '.join(s[i:j].split())
            term = s[j]
            spec = ''
            if decl.endswith('>'):            # trailing template-argument list of a specialisation
                d = 0
                k = len(decl) - 1
                while k >= 0:
                    if decl[k] == '>':
                        d += 1
                    elif decl[k] == '<':
                        d -= 1
                        if d == 0:
                            break
                    k -= 1
                spec = decl[k:]
                decl = decl[:k].rstrip()
            mm = re.search(r'([A-Za-z_][\w:]*)$', decl)
            if not mm:
                continue
            name = mm.group(1).split('::')[-1]
            if cx:
                kind = 'constant'
            elif term == ';' :
                kind = 'decl'
            elif params.strip() == '':
                kind = 'ordered'
            else:
                kind = 'unordered'
            out.setdefault(name, {}).setdefault(kind, 0)
            out[name][kind] += 1
    return out
