// Generic per-quantity-type battery: K2 replay of Store behaviours, layout facts (C17), precision casts
// (C16), comparison/hash grids (C14).  Instantiated by generated code for every quantity type x numeric type.
#pragma once
#include <algorithm>
#include <array>
#include <cmath>
#include <cstdint>
#include <cstdio>
#include <cstring>
#include <functional>
#include <limits>
#include <optional>
#include <random>
#include <set>
#include <sstream>
#include <string>
#include <type_traits>
#include <unordered_set>
#include <vector>

namespace bat {
template <class T> struct NumName;
template <> struct NumName<float> { static constexpr const char* c = "f"; };
template <> struct NumName<double> { static constexpr const char* c = "d"; };
template <> struct NumName<long double> { static constexpr const char* c = "l"; };

// ---- components of raw values, declared slot order ----
template <class T> inline int put(const T& v, T* out) { out[0] = v; return 1; }
template <class T> inline int put(const PhQ::PlanarVector<T>& v, T* out) { auto a = v.x_y(); for (int i = 0; i < 2; i++) out[i] = a[i]; return 2; }
template <class T> inline int put(const PhQ::Vector<T>& v, T* out) { auto a = v.x_y_z(); for (int i = 0; i < 3; i++) out[i] = a[i]; return 3; }
template <class T> inline int put(const PhQ::SymmetricDyad<T>& v, T* out) { auto a = v.xx_xy_xz_yy_yz_zz(); for (int i = 0; i < 6; i++) out[i] = a[i]; return 6; }
template <class T> inline int put(const PhQ::Dyad<T>& v, T* out) { auto a = v.xx_xy_xz_yx_yy_yz_zx_zy_zz(); for (int i = 0; i < 9; i++) out[i] = a[i]; return 9; }
template <class V> struct NC;
template <> struct NC<float> { static constexpr int n = 1; };
template <> struct NC<double> { static constexpr int n = 1; };
template <> struct NC<long double> { static constexpr int n = 1; };
template <class T> struct NC<PhQ::PlanarVector<T>> { static constexpr int n = 2; };
template <class T> struct NC<PhQ::Vector<T>> { static constexpr int n = 3; };
template <class T> struct NC<PhQ::SymmetricDyad<T>> { static constexpr int n = 6; };
template <class T> struct NC<PhQ::Dyad<T>> { static constexpr int n = 9; };
template <class T> inline T rawmake(const T* c, T*) { return c[0]; }
template <class T> inline PhQ::PlanarVector<T> rawmake(const T* c, PhQ::PlanarVector<T>*) { return PhQ::PlanarVector<T>(c[0], c[1]); }
template <class T> inline PhQ::Vector<T> rawmake(const T* c, PhQ::Vector<T>*) { return PhQ::Vector<T>(c[0], c[1], c[2]); }
template <class T> inline PhQ::SymmetricDyad<T> rawmake(const T* c, PhQ::SymmetricDyad<T>*) { return PhQ::SymmetricDyad<T>(c[0], c[1], c[2], c[3], c[4], c[5]); }
template <class T> inline PhQ::Dyad<T> rawmake(const T* c, PhQ::Dyad<T>*) { return PhQ::Dyad<T>(c[0], c[1], c[2], c[3], c[4], c[5], c[6], c[7], c[8]); }

template <class Q, class = void> struct has_value : std::false_type {};
template <class Q> struct has_value<Q, std::void_t<decltype(std::declval<const Q&>().Value())>> : std::true_type {};
template <class Q, class T> inline int getc(const Q& q, T* out) { if constexpr (has_value<Q>::value) { auto v = q.Value(); return put(v, out); } else return put(q, out); }
// ---- capability detection ----
#define BAT_DET(NAME, EXPR)                                                        \
  template <class Q, class T, class = void> struct NAME : std::false_type {};      \
  template <class Q, class T> struct NAME<Q, T, std::void_t<decltype(EXPR)>> : std::true_type {};
#define QV std::declval<const Q&>()
#define QM std::declval<Q&>()
#define TV std::declval<const T&>()
BAT_DET(has_addeq, QM += QV)
BAT_DET(has_subeq, QM -= QV)
BAT_DET(has_muleq, QM *= TV)
BAT_DET(has_diveq, QM /= TV)
BAT_DET(has_set, QM.SetValue(QV.Value()))
BAT_DET(has_mutable, QM.MutableValue() = QV.Value())
BAT_DET(has_zero, Q::Zero())
template <class Q, class T, class = void> struct has_add : std::false_type {};
template <class Q, class T> struct has_add<Q, T, std::enable_if_t<std::is_same_v<std::decay_t<decltype(QV + QV)>, Q>>> : std::true_type {};
template <class Q, class T, class = void> struct has_sub : std::false_type {};
template <class Q, class T> struct has_sub<Q, T, std::enable_if_t<std::is_same_v<std::decay_t<decltype(QV - QV)>, Q>>> : std::true_type {};
template <class Q, class T, class = void> struct has_muln : std::false_type {};
template <class Q, class T> struct has_muln<Q, T, std::enable_if_t<std::is_same_v<std::decay_t<decltype(QV * TV)>, Q>>> : std::true_type {};
template <class Q, class T, class = void> struct has_nmul : std::false_type {};
template <class Q, class T> struct has_nmul<Q, T, std::enable_if_t<std::is_same_v<std::decay_t<decltype(TV * QV)>, Q>>> : std::true_type {};
template <class Q, class T, class = void> struct has_divn : std::false_type {};
template <class Q, class T> struct has_divn<Q, T, std::enable_if_t<std::is_same_v<std::decay_t<decltype(QV / TV)>, Q>>> : std::true_type {};
template <class Q, class T, class = void> struct has_ratio : std::false_type {};
template <class Q, class T> struct has_ratio<Q, T, std::enable_if_t<std::is_same_v<std::decay_t<decltype(QV / QV)>, T>>> : std::true_type {};
template <class Q, class = void> struct has_xyz : std::false_type {};
template <class Q> struct has_xyz<Q, std::void_t<decltype(std::declval<const Q&>().x().Value())>> : std::true_type {};

// numbers of a printed quantity, after removing the unit abbreviation
inline int numbers_of(std::string s, const std::string& abbr, long double* out, int cap) {
  size_t p = abbr.empty() ? std::string::npos : s.rfind(abbr); if (p != std::string::npos) s.erase(p, abbr.size());
  int n = 0; size_t i = 0;
  while (i < s.size()) { unsigned char ch = s[i]; bool start = (isdigit(ch) || ((ch == '-' || ch == '+') && i + 1 < s.size() && isdigit((unsigned char)s[i + 1])));
    bool delim = i == 0 || !(isalnum((unsigned char)s[i - 1]) || s[i - 1] == '_' || s[i - 1] == '^' || s[i - 1] == '.');
    if (start && delim) { char* end; long double v = strtold(s.c_str() + i, &end); if (end != s.c_str() + i) { if (n < cap) out[n] = v; n++; i = end - s.c_str(); continue; } }
    i++; }
  return n; }
template <class Ad, class = void> struct ad_factor { static constexpr long value = 0; };
template <class Ad> struct ad_factor<Ad, std::void_t<decltype(Ad::factor)>> { static constexpr long value = Ad::factor; };
struct Step { std::string act, dst, a, b; long n; std::vector<std::vector<long>> st; std::vector<int> defd; std::vector<long> obs; };
struct Behaviour { int ncomp; long factor = 0; std::string caps; std::vector<Step> steps; std::vector<std::string> needs; };
struct Suite { std::vector<Behaviour> bs; std::vector<std::vector<std::vector<long>>> patterns; /* [ncomp][k] */ };

inline int regidx(const std::string& r) { return r == "r1" ? 0 : r == "r2" ? 1 : r == "r3" ? 2 : -1; }

// Ad: adapter with  using Q, using T, static Q make(const T*), static constexpr int N
template <class Ad> struct Replayer {
  using Q = typename Ad::Q; using T = typename Ad::T; static constexpr int N = Ad::N;
  static bool supports(const std::string& need) {
    if (need == "add") return has_add<Q, T>::value; if (need == "sub") return has_sub<Q, T>::value;
    if (need == "muln") return has_muln<Q, T>::value; if (need == "nmul") return has_nmul<Q, T>::value;
    if (need == "divn") return has_divn<Q, T>::value; if (need == "ratio") return has_ratio<Q, T>::value;
    if (need == "addeq") return has_addeq<Q, T>::value; if (need == "subeq") return has_subeq<Q, T>::value;
    if (need == "muleq") return has_muleq<Q, T>::value; if (need == "diveq") return has_diveq<Q, T>::value;
    if (need == "set") return has_set<Q, T>::value; if (need == "mutable") return has_mutable<Q, T>::value;
    if (need == "zero") return has_zero<Q, T>::value;
    return true; }
  static Q from(const std::vector<long>& c) { T x[9]; for (int i = 0; i < N; i++) x[i] = (T)c[i]; return Ad::make(x); }
  static bool same(const Q& q, const std::vector<long>& c) {
    T x[9]; getc(q, x); for (int i = 0; i < N; i++) if (!(x[i] == (T)c[i])) return false;
    // memory image: the object is exactly its components
    if (sizeof(Q) == N * sizeof(T)) { T m[9]; std::memcpy(m, &q, sizeof(Q)); for (int i = 0; i < N; i++) if (!(m[i] == (T)c[i])) return false; }
    return true; }
  // returns index of first mismatching step or -1; -2 if skipped
  static int run(const Behaviour& b, const Suite& s, std::string& why) {
    for (auto& n : b.needs) if (!supports(n)) return -2;
    if (b.factor != 0 && b.factor != ad_factor<Ad>::value) return -2;
    std::optional<Q> r[3];
    for (size_t k = 0; k < b.steps.size(); k++) {
      const Step& st = b.steps[k]; int d = regidx(st.dst), a = regidx(st.a), bb = regidx(st.b); T n = (T)st.n; std::vector<T> obs; bool snap_obs = false;
      const auto& pats = s.patterns[N];
      if (st.act == "Construct") r[d] = from(pats[st.n - 1]);
      else if (st.act == "Zero") { if constexpr (has_zero<Q, T>::value) r[d] = Q::Zero(); }
      else if (st.act == "Copy") { Q c(*r[a]); r[d] = c; }
      else if (st.act == "Assign") { *r[d] = *r[a]; }
      else if (st.act == "Move") { Q tmp(*r[a]); Q c(std::move(tmp)); r[d] = std::move(c); }
      else if (st.act == "Add") { if constexpr (has_add<Q, T>::value) r[d] = *r[a] + *r[bb]; }
      else if (st.act == "Sub") { if constexpr (has_sub<Q, T>::value) r[d] = *r[a] - *r[bb]; }
      else if (st.act == "MulN") { if constexpr (has_muln<Q, T>::value) r[d] = *r[a] * n; }
      else if (st.act == "NMul") { if constexpr (has_nmul<Q, T>::value) r[d] = n * *r[a]; }
      else if (st.act == "DivN") { if constexpr (has_divn<Q, T>::value) r[d] = *r[a] / n; }
      else if (st.act == "Ratio") { if constexpr (has_ratio<Q, T>::value) obs.push_back(*r[a] / *r[bb]); }
      else if (st.act == "AddEq") { if constexpr (has_addeq<Q, T>::value) *r[a] += *r[bb]; }
      else if (st.act == "SubEq") { if constexpr (has_subeq<Q, T>::value) *r[a] -= *r[bb]; }
      else if (st.act == "MulEq") { if constexpr (has_muleq<Q, T>::value) *r[a] *= n; }
      else if (st.act == "DivEq") { if constexpr (has_diveq<Q, T>::value) *r[a] /= n; }
      else if (st.act == "SetValue") { if constexpr (has_set<Q, T>::value) r[d]->SetValue(from(pats[st.n - 1]).Value()); }
      else if (st.act == "MutableWrite") { if constexpr (has_mutable<Q, T>::value) r[d]->MutableValue() = from(pats[st.n - 1]).Value(); }
      else if (st.act == "ConstructIn" || st.act == "CreateIn" || st.act == "ReadIn" || st.act == "StaticReadIn" || st.act == "PrintIn") {
        if constexpr (ad_factor<Ad>::value != 0) { snap_obs = true;
          using V = std::decay_t<decltype(std::declval<const Q&>().Value())>; T c[9]; if (st.n >= 1) for (int i = 0; i < N; i++) c[i] = (T)pats[st.n - 1][i];
          if (st.act == "ConstructIn") { V raw = rawmake(c, (V*)nullptr); r[d] = Q(raw, Ad::unit); }
          else if (st.act == "CreateIn") { V raw = rawmake(c, (V*)nullptr); r[d] = Q::template Create<Ad::unit>(raw); }
          else if (st.act == "ReadIn") { auto v = r[a]->Value(Ad::unit); T x[9]; put(v, x); for (int i = 0; i < N; i++) obs.push_back(x[i]); }
          else if (st.act == "StaticReadIn") { auto v = r[a]->template StaticValue<Ad::unit>(); T x[9]; put(v, x); for (int i = 0; i < N; i++) obs.push_back(x[i]); }
          else { long double got[12]; int k2 = numbers_of(r[a]->Print(Ad::unit), std::string(PhQ::Abbreviation(Ad::unit)), got, 12); if (k2 != N) { why = "PrintIn: wrong number of values printed"; return (int)k; } for (int i = 0; i < N; i++) obs.push_back((T)got[i]); } } }
      else if (st.act == "ReadValue") { T x[9]; getc(*r[a], x); for (int i = 0; i < N; i++) obs.push_back(x[i]); }
      else if (st.act == "Serialize") {
        std::string p = r[a]->Print(), j = r[a]->JSON(), x = r[a]->XML(), y = r[a]->YAML(); std::ostringstream os; os << *r[a];
        if (os.str() != p || j.empty() || x.empty() || y.empty()) { why = "stream != Print at step " + std::to_string(k); return (int)k; }
        T c[9]; getc(*r[a], c); for (int i = 0; i < N; i++) obs.push_back(c[i]); }
      else { why = "unknown action " + st.act; return (int)k; }
      for (int i = 0; i < 3; i++) {
        if (!st.defd[i]) { if (r[i].has_value()) { why = "register defined unexpectedly"; return (int)k; } continue; }
        if (!r[i].has_value() || !same(*r[i], st.st[i])) { why = st.act + ": register r" + std::to_string(i + 1) + " differs from the specification state"; return (int)k; } }
      if (obs.size() != st.obs.size()) { why = st.act + ": observation arity"; return (int)k; }
      for (size_t i = 0; i < obs.size(); i++) { T want = (T)st.obs[i]; bool okv = obs[i] == want;
        // a value read back in a unit may pass through an inexact reciprocal factor: it must snap to the specification's integer within 4 ulps
        if (!okv && snap_obs) okv = std::fabs(obs[i] - want) <= 4 * std::numeric_limits<T>::epsilon() * std::fabs(want);
        if (!okv) { why = st.act + ": observation differs"; return (int)k; } }
    }
    return -1; }
};

template <class Ad> void replay_all(const char* name, const Suite& s) {
  using R = Replayer<Ad>; long done = 0, steps = 0, skipped = 0, bad = 0; std::string first, why;
  for (size_t i = 0; i < s.bs.size(); i++) { const Behaviour& b = s.bs[i]; if (b.ncomp != Ad::N) continue;
    int k = R::run(b, s, why); if (k == -2) { skipped++; continue; } done++; steps += b.steps.size();
    if (k >= 0) { if (!bad) first = "behaviour " + std::to_string(i) + " step " + std::to_string(k) + ": " + why; bad++; } }
  printf("{\"e\":\"Replay\",\"type\":\"%s\",\"num\":\"%s\",\"ncomp\":%d,\"behaviours\":%ld,\"steps\":%ld,\"skipped\":%ld,\"mismatch\":%ld,\"first\":\"%s\"}\n",
         name, NumName<typename Ad::T>::c, Ad::N, done, steps, skipped, bad, first.c_str());
}

template <class T> inline bool biteq(T a, T b) { return std::memcmp(&a, &b, std::is_same_v<T, long double> ? 10 : sizeof(T)) == 0 || (a != a && b != b); }
// ---- C04 numeric layer: operators are the correctly rounded native operation on the stored values, in the
// written order; compound assignments leave bit for bit what the pure operator returns ----
template <class T> inline bool near1(T a, T b) { if (biteq(a, b)) return true; if (a != a || b != b) return false; return a == b || a == std::nextafter(b, std::numeric_limits<T>::infinity()) || a == std::nextafter(b, -std::numeric_limits<T>::infinity()); }
template <class Ad> void arith(const char* name, uint64_t seed, int n) {
  using Q = typename Ad::Q; using T = typename Ad::T; constexpr int N = Ad::N;
  std::mt19937_64 g(seed * 31 + N); const char* ops[6] = {"add", "sub", "muln", "nmul", "divn", "ratio"};
  long cnt[6] = {0}, pure_bad[6] = {0}, comp_bad[6] = {0}; long double wit[6] = {0}; long cntm = 0, pure_m = 0, comp_m = 0;
  auto rnd = [&]() { T m = (T)(1.0L + (long double)(g() >> 11) / (long double)(1ULL << 53)); if (sizeof(T) > 8) m += (T)std::ldexp((long double)(g() & 1023), -63); return std::ldexp(m, (int)(g() % 24) - 12) * ((g() & 1) ? 1 : -1); };
  for (int t = 0; t < n; t++) {
    T ca[9], cb[9]; for (int i = 0; i < N; i++) { ca[i] = rnd(); cb[i] = rnd(); } T k = rnd(); if (t % 7 == 0) k = (T)((int)(g() % 19) - 9 == 0 ? 3 : (int)(g() % 19) - 9);
    if (k == 0) k = 3;
    Q a = Ad::make(ca), b = Ad::make(cb); T va[9], vb[9]; getc(a, va); getc(b, vb); T r[9], c2[9];
    auto check = [&](int o, const T* got, const T* want, bool compound) { for (int i = 0; i < N; i++) { if (!biteq(got[i], want[i])) { if (compound) comp_bad[o]++; else { if (!pure_bad[o]) wit[o] = (long double)va[i]; pure_bad[o]++; } } } };
    T want[9];
    if constexpr (has_add<Q, T>::value) { cnt[0]++; auto x = a + b; getc(x, r); for (int i = 0; i < N; i++) want[i] = va[i] + vb[i]; check(0, r, want, false);
      if constexpr (has_addeq<Q, T>::value) { Q y = a; y += b; getc(y, c2); check(0, c2, r, true); } }
    if constexpr (has_sub<Q, T>::value) { cnt[1]++; auto x = a - b; getc(x, r); for (int i = 0; i < N; i++) want[i] = va[i] - vb[i]; check(1, r, want, false);
      if constexpr (has_subeq<Q, T>::value) { Q y = a; y -= b; getc(y, c2); check(1, c2, r, true); } }
    if constexpr (has_muln<Q, T>::value) { cnt[2]++; auto x = a * k; getc(x, r); for (int i = 0; i < N; i++) want[i] = va[i] * k; check(2, r, want, false);
      if constexpr (has_muleq<Q, T>::value) { Q y = a; y *= k; getc(y, c2); check(2, c2, r, true); } }
    if constexpr (has_nmul<Q, T>::value) { cnt[3]++; auto x = k * a; getc(x, r); for (int i = 0; i < N; i++) want[i] = k * va[i]; check(3, r, want, false); }
    if constexpr (has_divn<Q, T>::value) { cnt[4]++; auto x = a / k; getc(x, r); for (int i = 0; i < N; i++) want[i] = va[i] / k; check(4, r, want, false);
      if constexpr (has_diveq<Q, T>::value) { Q y = a; y /= k; getc(y, c2); check(4, c2, r, true); } }
    // raw shapes accept a number of ANY arithmetic type: the result is the native operation with that number - the library converts the number to T first; computing in the wider type
    // and rounding once would be equally legitimate, so agreement is required within one ulp (a number silently narrowed to double for a long double shape is 2048 ulps away)
    if constexpr (N > 1 && !has_value<Q>::value) { long double kl = (long double)k * (1.0L + std::ldexp((long double)(1 + (g() & 1023)), -40)); float kf = (float)kl; double kd = (double)kl; int ki = (int)(g() % 19) - 9; if (ki == 0) ki = 7;
      auto mixed = [&](auto ko) { T kk = static_cast<T>(ko); cntm++; T w[9], r2[9];
        { auto x = a * ko; getc(x, r2); for (int i = 0; i < N; i++) w[i] = va[i] * kk; for (int i = 0; i < N; i++) if (!near1(r2[i], w[i])) { pure_m++; break; } Q y = a; y *= ko; getc(y, c2); for (int i = 0; i < N; i++) if (!near1(c2[i], w[i])) { comp_m++; break; } }
        { auto x = ko * a; getc(x, r2); for (int i = 0; i < N; i++) w[i] = va[i] * kk; for (int i = 0; i < N; i++) if (!near1(r2[i], w[i])) { pure_m++; break; } }
        { auto x = a / ko; getc(x, r2); for (int i = 0; i < N; i++) w[i] = va[i] / kk; for (int i = 0; i < N; i++) if (!near1(r2[i], w[i])) { pure_m++; break; } Q y = a; y /= ko; getc(y, c2); for (int i = 0; i < N; i++) if (!near1(c2[i], w[i])) { comp_m++; break; } } };
      mixed(kf); mixed(kd); mixed(kl); mixed(ki); }
    if constexpr (has_ratio<Q, T>::value) { cnt[5]++; T x = a / b; want[0] = va[0] / vb[0]; if (!biteq(x, want[0])) { if (!pure_bad[5]) wit[5] = (long double)va[0]; pure_bad[5]++; } }
  }
  if (cntm) printf("{\"e\":\"Arith\",\"type\":\"%s\",\"num\":\"%s\",\"op\":\"number_of_other_type\",\"n\":%ld,\"pure_bad\":%ld,\"compound_bad\":%ld,\"witness\":\"0x0p+0\"}\n", name, NumName<T>::c, cntm, pure_m, comp_m);
  for (int o = 0; o < 6; o++) if (cnt[o]) printf("{\"e\":\"Arith\",\"type\":\"%s\",\"num\":\"%s\",\"op\":\"%s\",\"n\":%ld,\"pure_bad\":%ld,\"compound_bad\":%ld,\"witness\":\"%La\"}\n", name, NumName<T>::c, ops[o], cnt[o], pure_bad[o], comp_bad[o], wit[o]);
}

// ---- C04: the standard math functions overloaded for dimensionless scalars return exactly that function of Value() ----
template <class Q, class = void> struct has_mathfn : std::false_type {};
template <class Q> struct has_mathfn<Q, std::void_t<decltype(std::sqrt(std::declval<const Q&>())), decltype(std::exp(std::declval<const Q&>()))>> : std::true_type {};
template <class Ad> void mathfn(const char* name, uint64_t seed, int n) {
  using Q = typename Ad::Q; using T = typename Ad::T;
  if constexpr (Ad::N == 1 && has_mathfn<Q>::value) {
    std::mt19937_64 g(seed); const char* fn[8] = {"abs", "cbrt", "exp", "log", "log2", "log10", "pow", "sqrt"}; long bad[8] = {0}; long double wit[8] = {0}; long bad4[4] = {0}; long double wit4[4] = {0};
    for (int t = 0; t < n; t++) { T m = (T)(1.0L + (long double)(g() >> 11) / (long double)(1ULL << 53)); T x = std::ldexp(m, (int)(g() % 12) - 6); T sx = (g() & 1) ? x : -x; T e = (T)((int)(g() % 7) - 3) + (T)0.5;
      T cx[1] = {x}, cs[1] = {sx}; Q qx = Ad::make(cx), qs = Ad::make(cs); T vx = qx.Value(), vs = qs.Value();
      T got[8] = {std::abs(qs), std::cbrt(qs), std::exp(qs), std::log(qx), std::log2(qx), std::log10(qx), std::pow(qx, e), std::sqrt(qx)};
      T want[8] = {std::abs(vs), std::cbrt(vs), std::exp(vs), std::log(vx), std::log2(vx), std::log10(vx), std::pow(vx, e), std::sqrt(vx)};
      for (int k = 0; k < 8; k++) if (!biteq(got[k], want[k])) { if (!bad[k]) wit[k] = (long double)sx; bad[k]++; }
      // pow with an exponent of ANOTHER arithmetic type (not representable in narrower types): exactly std::pow(stored value, exponent) converted to T
      { long double el = (long double)((int)(g() % 9) - 4) + 0.1L * (long double)(1 + g() % 9) + std::ldexp((long double)(g() & 1023), -62); float ef = (float)el; double ed = (double)el; int ei = (int)(g() % 7) - 3;
        T g4[4] = {std::pow(qx, ef), std::pow(qx, ed), std::pow(qx, el), std::pow(qx, ei)}; T w4[4] = {(T)std::pow(vx, ef), (T)std::pow(vx, ed), (T)std::pow(vx, el), (T)std::pow(vx, ei)};
        for (int k = 0; k < 4; k++) if (!biteq(g4[k], w4[k])) { if (!bad4[k]) wit4[k] = (long double)x; bad4[k]++; } } }
    { const char* f4[4] = {"pow_float_exponent", "pow_double_exponent", "pow_long_double_exponent", "pow_int_exponent"};
      for (int k = 0; k < 4; k++) printf("{\"e\":\"MathFn\",\"type\":\"%s\",\"num\":\"%s\",\"fn\":\"%s\",\"n\":%d,\"bad\":%ld,\"witness\":\"%La\"}\n", name, NumName<T>::c, f4[k], n, bad4[k], wit4[k]); }
    for (int k = 0; k < 8; k++) printf("{\"e\":\"MathFn\",\"type\":\"%s\",\"num\":\"%s\",\"fn\":\"%s\",\"n\":%d,\"bad\":%ld,\"witness\":\"%La\"}\n", name, NumName<T>::c, fn[k], n, bad[k], wit[k]);
  }
}

template <class Q, class = void> struct has_unit : std::false_type {};
template <class Q> struct has_unit<Q, std::void_t<decltype(Q::Unit())>> : std::true_type {};
// every constructor form that takes the components themselves - a component list, a std::array, the raw shape; with the standard unit for
// dimensional types - must store exactly those numbers (detected per type: absent forms are skipped)
template <int N, class T> struct RawOf { using type = T; };
template <class T> struct RawOf<2, T> { using type = PhQ::PlanarVector<T>; }; template <class T> struct RawOf<3, T> { using type = PhQ::Vector<T>; };
template <class T> struct RawOf<6, T> { using type = PhQ::SymmetricDyad<T>; }; template <class T> struct RawOf<9, T> { using type = PhQ::Dyad<T>; };
template <class Q, class T, size_t... I> constexpr bool list_constructible(std::index_sequence<I...>) { return std::is_constructible<Q, decltype((void)I, T())...>::value; }
template <class Q, class T, class U, size_t... I> constexpr bool list_unit_constructible(std::index_sequence<I...>) { return std::is_constructible<Q, decltype((void)I, T())..., U>::value; }
template <class Q, class T, size_t... I> Q from_list(const T* c, std::index_sequence<I...>) { return Q(c[I]...); }
template <class Q, class T, class U, size_t... I> Q from_list_unit(const T* c, U u, std::index_sequence<I...>) { return Q(c[I]..., u); }
template <class Q, class T, int N> void ctor_forms(const T* c, long& tried, long& bad) {
  using Raw = typename RawOf<N, T>::type; using Seq = std::make_index_sequence<N>; T got[9];
  auto chk = [&](const Q& q) { tried++; getc(q, got); for (int i = 0; i < N; i++) if (!biteq(got[i], c[i])) { bad++; break; } };
  std::array<T, N> arr; for (int i = 0; i < N; i++) arr[i] = c[i];
  if constexpr (N > 1) { Raw raw(arr);
    if constexpr (!std::is_same<Q, Raw>::value) {
      if constexpr (has_unit<Q>::value) { using U = decltype(Q::Unit()); if constexpr (std::is_constructible<Q, Raw, U>::value) chk(Q(raw, Q::Unit())); if constexpr (std::is_constructible<Q, std::array<T, N>, U>::value) chk(Q(arr, Q::Unit()));
        if constexpr (list_unit_constructible<Q, T, U>(Seq{})) chk(from_list_unit<Q, T, U>(c, Q::Unit(), Seq{})); }
      else { if constexpr (std::is_constructible<Q, Raw>::value) chk(Q(raw)); if constexpr (std::is_constructible<Q, std::array<T, N>>::value) chk(Q(arr)); if constexpr (list_constructible<Q, T>(Seq{})) chk(from_list<Q, T>(c, Seq{})); } }
    else { chk(Q(arr)); chk(from_list<Q, T>(c, Seq{})); Q z = Q::Zero(); z = arr; chk(z); } }
  else { if constexpr (has_unit<Q>::value) { using U = decltype(Q::Unit()); if constexpr (std::is_constructible<Q, T, U>::value) chk(Q(c[0], Q::Unit())); } else { if constexpr (std::is_constructible<Q, T>::value) chk(Q(c[0])); } }
}
// ---- C17: mutators and accessors expose exactly the stored value (full-precision values of the numeric type) ----
template <class Ad> void mutators(const char* name, uint64_t seed, int n) {
  using Q = typename Ad::Q; using T = typename Ad::T; constexpr int N = Ad::N; std::mt19937_64 g(seed * 97 + N); long set_bad = 0, mut_bad = 0, ctor_bad = 0, cnt = 0, forms_tried = 0, forms_bad = 0; long double wit = 0;
  auto rnd = [&]() { T m = (T)(1.0L + (long double)(g() >> 11) / (long double)(1ULL << 53)); if (sizeof(T) > 8) m += (T)std::ldexp((long double)(g() & 2047), -63); int span = std::numeric_limits<T>::max_exponent - 2; return std::ldexp(m, (int)(g() % (unsigned)(2 * span)) - span) * ((g() & 1) ? 1 : -1); };
  for (int t = 0; t < n; t++) { T c[9], d[9]; for (int i = 0; i < N; i++) { c[i] = rnd(); d[i] = rnd(); }
    // signed zeros: the new value compares EQUAL to the stored one and differs only in the sign bit of its zero components - it must still be stored bit for bit
    if (t % 4 == 1) { int zi = (int)(g() % N); for (int i = 0; i < N; i++) { if (i == zi || (g() & 3) == 0) { c[i] = (g() & 1) ? (T)0 : -(T)0; d[i] = -c[i]; } else d[i] = c[i]; } }
    Q q = Ad::make(c); T got[9]; getc(q, got); for (int i = 0; i < N; i++) if (!biteq(got[i], c[i])) ctor_bad++;
    if constexpr (has_set<Q, T>::value) { Q src = Ad::make(d); q.SetValue(src.Value()); getc(q, got); for (int i = 0; i < N; i++) if (!biteq(got[i], d[i])) { if (!set_bad) wit = (long double)d[i]; set_bad++; } }
    if constexpr (has_mutable<Q, T>::value) { Q src = Ad::make(c); q.MutableValue() = src.Value(); getc(q, got); for (int i = 0; i < N; i++) if (!biteq(got[i], c[i])) mut_bad++; }
    ctor_forms<Q, T, N>(c, forms_tried, forms_bad);
    cnt++; }
  printf("{\"e\":\"Mutator\",\"type\":\"%s\",\"num\":\"%s\",\"n\":%ld,\"ctor_bad\":%ld,\"set_bad\":%ld,\"mutable_bad\":%ld,\"has_set\":%d,\"has_mutable\":%d,\"forms_tried\":%ld,\"forms_bad\":%ld,\"witness\":\"%La\"}\n", name, NumName<T>::c, cnt, ctor_bad, set_bad, mut_bad,
         (int)has_set<Q, T>::value, (int)has_mutable<Q, T>::value, forms_tried, forms_bad, wit);
}

// ---- C15: composite printed / serialised forms ----
inline std::string jesc(const std::string& s) { std::string o; char b[8]; for (unsigned char c : s) { if (c == '"' || c == '\\') { o += '\\'; o += (char)c; } else if (c < 0x20) { snprintf(b, 8, "\\u%04x", c); o += b; } else o += (char)c; } return o; }
// replace, in order, the expected number strings by '#' and the abbreviation by '@'; numbers_ok iff the numeric tokens of the
// text are exactly the expected strings in declared component order
inline std::string templ(const std::string& text, const std::vector<std::string>& nums, const std::string& abbr, bool& numbers_ok) {
  std::string s = text; size_t pa = std::string::npos; if (!abbr.empty()) { pa = s.rfind(abbr); }
  std::string head = pa == std::string::npos ? s : s.substr(0, pa), tail = pa == std::string::npos ? "" : "@" + s.substr(pa + abbr.size());
  std::string out; size_t i = 0; size_t k = 0; numbers_ok = true;
  while (i < head.size()) { unsigned char ch = head[i]; bool start = (isdigit(ch) || ((ch == '-' || ch == '+') && i + 1 < head.size() && isdigit((unsigned char)head[i + 1])));
    bool delim = i == 0 || !(isalnum((unsigned char)head[i - 1]) || head[i - 1] == '_' || head[i - 1] == '.');
    if (start && delim) { size_t j = i; if (head[j] == '-' || head[j] == '+') j++; while (j < head.size() && (isdigit((unsigned char)head[j]) || head[j] == '.')) j++;
      if (j < head.size() && (head[j] == 'e' || head[j] == 'E')) { size_t m = j + 1; if (m < head.size() && (head[m] == '-' || head[m] == '+')) m++; if (m < head.size() && isdigit((unsigned char)head[m])) { while (m < head.size() && isdigit((unsigned char)head[m])) m++; j = m; } }
      std::string tok = head.substr(i, j - i); if (k >= nums.size() || tok != nums[k]) numbers_ok = false; k++; out += '#'; i = j; continue; }
    out += (char)ch; i++; }
  if (k != nums.size()) numbers_ok = false;
  return out + tail; }
template <class Ad> void composite(const char* name) {
  using Q = typename Ad::Q; using T = typename Ad::T; constexpr int N = Ad::N;
  for (int variant = 0; variant < 4; variant++) {
    T c[9]; for (int i = 0; i < N; i++) c[i] = variant == 0 ? (T)((i + 1) * 1.25L) * ((i & 1) ? -1 : 1) : variant == 1 ? std::ldexp((T)(1.0L + 0.1L * i), (i * 7) % 40 - 20) : variant == 2 ? (T)(i == 0 ? 0 : -(T)0.001L * (i + 2))
      : -std::ldexp((T)(1.0L + 0.1L * i + 0.0123456789L), ((i & 1) ? -1 : 1) * (std::numeric_limits<T>::max_exponent / 2 - 3 * i));   // the longest texts: negative, full digits, widest exponents (four digits in long double)
    Q q = Ad::make(c); T v[9]; getc(q, v); std::vector<std::string> nums; for (int i = 0; i < N; i++) nums.push_back(PhQ::Print(v[i]));
    std::string abbr; bool dim = false; if constexpr (has_unit<Q>::value) { abbr = std::string(PhQ::Abbreviation(Q::Unit())); dim = true; }
    std::ostringstream os; os << q; const char* forms[5] = {"Print", "JSON", "XML", "YAML", "stream"}; std::string texts[5] = {q.Print(), q.JSON(), q.XML(), q.YAML(), os.str()};
    for (int f = 0; f < 5; f++) { bool ok; std::string t = templ(texts[f], nums, abbr, ok);
      printf("{\"e\":\"Composite\",\"type\":\"%s\",\"num\":\"%s\",\"form\":\"%s\",\"dimensional\":%s,\"numbers_ok\":%s,\"template\":\"%s\",\"raw\":\"%s\"}\n", name, NumName<T>::c, forms[f], dim ? "true" : "false", ok ? "true" : "false", jesc(t).c_str(), f == 1 ? jesc(texts[f]).c_str() : ""); }
    // the forms that take a unit: the same grammar around the number strings of Value(unit) and that unit's abbreviation
    if constexpr (has_unit<Q>::value) { using UT = decltype(Q::Unit()); const size_t nunits = PhQ::Internal::Abbreviations<UT>.size();
      for (int ui = 0; ui < 2; ui++) { UT u = Q::Unit(); if (ui == 1) { if (nunits < 2) continue; u = static_cast<UT>(static_cast<int>(Q::Unit()) == 0 ? 1 : 0); }
        T w[9]; auto vu = q.Value(u); put(vu, w); std::vector<std::string> un; for (int i = 0; i < N; i++) un.push_back(PhQ::Print(w[i])); std::string ua(PhQ::Abbreviation(u));
        const char* uforms[4] = {"Print_unit", "JSON_unit", "XML_unit", "YAML_unit"}; std::string ut[4] = {q.Print(u), q.JSON(u), q.XML(u), q.YAML(u)};
        for (int f = 0; f < 4; f++) { bool ok; std::string t = templ(ut[f], un, ua, ok);
          printf("{\"e\":\"Composite\",\"type\":\"%s\",\"num\":\"%s\",\"form\":\"%s\",\"unit\":\"%s\",\"dimensional\":true,\"numbers_ok\":%s,\"template\":\"%s\",\"raw\":\"%s\"}\n", name, NumName<T>::c, uforms[f], ui ? "alt" : "std",
                 ok ? "true" : "false", jesc(t).c_str(), (f == 1 && variant == 0) ? jesc(ut[f]).c_str() : ""); } } } }
}

// ---- C17: layout facts ----
template <class Ad> void layout(const char* name) {
  using Q = typename Ad::Q; using T = typename Ad::T; constexpr int N = Ad::N;
  T c[9]; for (int i = 0; i < N; i++) c[i] = (T)(i + 1);
  Q q = Ad::make(c); getc(q, c); T m[16] = {0}; bool image = sizeof(Q) == N * sizeof(T);
  if (image) { std::memcpy(m, &q, sizeof(Q)); for (int i = 0; i < N; i++) image &= m[i] == c[i]; }
  Q arr[3] = {q, q, q};
  long stride = (long)((const char*)&arr[1] - (const char*)&arr[0]);
  bool arrimg = true; if (sizeof(arr) == 3 * N * sizeof(T)) { T all[27]; std::memcpy(all, arr, sizeof(arr)); for (int i = 0; i < 3 * N; i++) arrimg &= all[i] == c[i % N]; } else arrimg = false;
  int zero_ok = -1, zero_pos = -1;
  if constexpr (has_zero<Q, T>::value) { Q z = Q::Zero(); T zc[9]; getc(z, zc); zero_ok = 1; zero_pos = 1; for (int i = 0; i < N; i++) { if (!(zc[i] == 0)) zero_ok = 0; if (std::signbit(zc[i])) zero_pos = 0; } }
  // copy through memcpy (trivially copyable types may be copied as bytes)
  Q q2 = Ad::make(c); T c2[9]; for (int i = 0; i < N; i++) c2[i] = (T)(-(i + 3)); Q q3 = Ad::make(c2); getc(q3, c2); std::memcpy((void*)&q2, (const void*)&q3, sizeof(Q)); T got[9]; getc(q2, got);
  bool bytecopy = true; for (int i = 0; i < N; i++) bytecopy &= got[i] == c2[i];
  printf("{\"e\":\"Layout\",\"type\":\"%s\",\"num\":\"%s\",\"ncomp\":%d,\"sizeof\":%zu,\"alignof\":%zu,\"sizeof_num\":%zu,\"alignof_num\":%zu,\"triv\":%d,\"stdlayout\":%d,\"image\":%d,\"stride\":%ld,\"array_image\":%d,\"zero_ok\":%d,\"zero_pos\":%d,\"bytecopy\":%d}\n",
         name, NumName<T>::c, N, sizeof(Q), alignof(Q), sizeof(T), alignof(T), (int)std::is_trivially_copyable<Q>::value, (int)std::is_standard_layout<Q>::value,
         (int)image, stride, (int)arrimg, zero_ok, zero_pos, (int)bytecopy);
}

// ---- C16: precision casts ----
template <class AdF, class AdT> void cast_pair(const char* name, uint64_t seed, int n, bool normalised) {
  using QF = typename AdF::Q; using QT = typename AdT::Q; using F = typename AdF::T; using T = typename AdT::T; constexpr int N = AdF::N;
  std::mt19937_64 g(seed); long cnt = 0, slot_bad = 0, bit_bad = 0, rt_bad = 0, asg_bad = 0; long double wit = 0;
  for (int t = 0; t < n; t++) {
    F c[9];
    if (t == 0) for (int i = 0; i < N; i++) c[i] = (F)(i + 1);                       // distinct integers per slot
    else if (t == 1) for (int i = 0; i < N; i++) c[i] = (F)(-(2 * i + 3));
    else for (int i = 0; i < N; i++) { F m = (F)(1.0L + (long double)(g() >> 11) / (long double)(1ULL << 53)); if (sizeof(F) > 8) m += (F)std::ldexp((long double)(g() & 1023), -63);
        int e = (int)(g() % 40) - 20;
        // every fifth set: anywhere in the source type's normal range - beyond the destination's range a plain cast gives +-infinity, below it a subnormal or zero
        if (t % 5 == 2 && !normalised) { const int lo = std::numeric_limits<F>::min_exponent + 2, hi = std::numeric_limits<F>::max_exponent - 2; e = lo + (int)(g() % (unsigned)(hi - lo + 1)); }
        c[i] = std::ldexp(m, e) * ((g() & 1) ? 1 : -1);   // not representable in narrower types
        // narrowing, every fifth set: the rounding decision itself - the midpoint of two neighbouring destination values and the source values
        // up to two source ulps on either side of it (a cast that goes through an intermediate type rounds twice and lands on the other neighbour)
        if (sizeof(T) < sizeof(F) && t % 5 == 3 && !normalised) { T t0 = static_cast<T>(c[i]); T t1 = std::nextafter(t0, t0 > 0 ? std::numeric_limits<T>::infinity() : -std::numeric_limits<T>::infinity());
          F v = ((F)t0 + (F)t1) / 2; int k = (int)(g() % 5) - 2;
          for (int s = 0; s < std::abs(k); s++) v = std::nextafter(v, k > 0 ? std::numeric_limits<F>::infinity() : -std::numeric_limits<F>::infinity());
          c[i] = v; } }
    QF src = AdF::make(c); F sc[9]; getc(src, sc);
    QT dst(src);                         // converting construction
    T dc[9]; getc(dst, dc);
    QT asg = AdT::make(dc); { T z[9]; for (int i = 0; i < N; i++) z[i] = (T)(i + 1); asg = AdT::make(z); } asg = src;   // converting assignment
    T ac[9]; getc(asg, ac);
    for (int i = 0; i < N; i++) { cnt++;
      T want = static_cast<T>(sc[i]);
      if (!normalised) { if (!biteq(dc[i], want)) { if (!bit_bad) wit = (long double)sc[i]; bit_bad++; } if (!biteq(ac[i], want)) asg_bad++; }
      else { const long double tol = 2 * std::max((long double)std::numeric_limits<T>::epsilon(), (long double)std::numeric_limits<F>::epsilon());   // two ulps of the coarser type
        if (std::fabs((long double)dc[i] - (long double)want) > tol) { if (!bit_bad) wit = (long double)sc[i]; bit_bad++; } if (std::fabs((long double)ac[i] - (long double)want) > tol) asg_bad++; }
      if (t < 2 && !normalised && !(dc[i] == (T)sc[i])) slot_bad++; }
    // widening followed by narrowing is the identity
    if (sizeof(T) > sizeof(F) || (sizeof(T) == sizeof(F))) { QF back(dst); F bc[9]; getc(back, bc); if (!normalised) for (int i = 0; i < N; i++) if (!biteq(bc[i], sc[i])) rt_bad++; }
  }
  printf("{\"e\":\"Cast\",\"type\":\"%s\",\"from\":\"%s\",\"to\":\"%s\",\"ncomp\":%d,\"n\":%ld,\"slot_bad\":%ld,\"bit_bad\":%ld,\"assign_bad\":%ld,\"roundtrip_bad\":%ld,\"widening\":%d,\"normalised\":%d,\"witness\":\"%La\"}\n",
         name, NumName<F>::c, NumName<T>::c, N, cnt, slot_bad, bit_bad, asg_bad, rt_bad, (int)(sizeof(T) >= sizeof(F)), (int)normalised, wit);
}

// ---- C14: comparison grids ----
// value ranks: 0:-inf 1:-2 2:-1 3:-0 4:+0 5:1 6:2 7:+inf ; order rank: -0 and +0 tie
template <class T> inline T val_of(int r) { switch (r) { case 0: return -std::numeric_limits<T>::infinity(); case 1: return -2; case 2: return -1; case 3: return -(T)0; case 4: return (T)0; case 5: return 1; case 6: return 2; default: return std::numeric_limits<T>::infinity(); } }
inline int ord_of(int r) { return r <= 3 ? r : r - 1; }
template <class Ad> void compare_grid(const char* name, uint64_t seed, int npairs, int sample, bool with_containers) {
  using Q = typename Ad::Q; using T = typename Ad::T; constexpr int N = Ad::N;
  std::mt19937_64 g(seed); long cnt = 0, bad = 0, emitted = 0;
  auto mk = [&](const int* r) { T c[9]; for (int i = 0; i < N; i++) c[i] = val_of<T>(r[i]); return Ad::make(c); };
  auto emit = [&](const int* ra, const int* rb, int lt, int le, int gt, int ge, int eq, int ne, int heq) {
    printf("{\"e\":\"Cmp\",\"type\":\"%s\",\"num\":\"%s\",\"a\":[", name, NumName<T>::c); for (int i = 0; i < N; i++) printf("%s%d", i ? "," : "", ord_of(ra[i]));
    printf("],\"b\":["); for (int i = 0; i < N; i++) printf("%s%d", i ? "," : "", ord_of(rb[i]));
    printf("],\"lt\":%d,\"le\":%d,\"gt\":%d,\"ge\":%d,\"eq\":%d,\"ne\":%d,\"heq\":%d}\n", lt, le, gt, ge, eq, ne, heq); emitted++; };
  for (int t = 0; t < npairs; t++) {
    int ra[9], rb[9]; int k = (int)(g() % (N + 1));            // a and b tie in the first k slots (possibly via -0/+0), differ (maybe) after
    for (int i = 0; i < N; i++) { ra[i] = (int)(g() % 8); if (i < k) { rb[i] = ra[i]; if ((ra[i] == 3 || ra[i] == 4) && (g() & 1)) rb[i] = 7 - ra[i]; } else rb[i] = (int)(g() % 8); }
    if (k < N && (g() % 3)) { rb[k] = ra[k] + ((g() & 1) ? 1 : -1); if (rb[k] < 0) rb[k] = 1; if (rb[k] > 7) rb[k] = 6; }
    if (t % 4 == 1) { int j = (int)(g() % N); for (int i = 0; i < N; i++) rb[i] = ra[i]; rb[j] = (ra[j] + 1 + (int)(g() % 6)) % 8; }   // differ in exactly one slot (any slot)
    Q a = mk(ra), b = mk(rb);
    int lt = a < b, le = a <= b, gt = a > b, ge = a >= b, eq = a == b, ne = a != b; int heq = std::hash<Q>()(a) == std::hash<Q>()(b);
    // reference: lexicographic on order ranks
    int c = 0; for (int i = 0; i < N && !c; i++) { int x = ord_of(ra[i]), y = ord_of(rb[i]); c = x < y ? -1 : x > y ? 1 : 0; }
    bool ok = lt == (c < 0) && le == (c <= 0) && gt == (c > 0) && ge == (c >= 0) && eq == (c == 0) && ne == (c != 0) && (c != 0 || heq);
    cnt++; if (!ok) bad++;
    if ((!ok && bad <= 50) || (int)(g() % (uint64_t)std::max(1, npairs / std::max(1, sample))) == 0) emit(ra, rb, lt, le, gt, ge, eq, ne, heq);
  }
  int set_ok = -1, uset_ok = -1;
  if (with_containers) {   // a collection can be stored in ordered / unordered containers and found again
    std::vector<Q> items; std::vector<std::vector<int>> keys;
    for (int t = 0; t < 60; t++) { int r[9]; for (int i = 0; i < N; i++) r[i] = (int)(g() % 8); items.push_back(mk(r)); std::vector<int> kk; for (int i = 0; i < N; i++) kk.push_back(ord_of(r[i])); keys.push_back(kk); }
    std::set<std::vector<int>> distinct(keys.begin(), keys.end());
    std::set<Q> s(items.begin(), items.end()); std::unordered_set<Q> u(items.begin(), items.end());
    set_ok = s.size() == distinct.size(); uset_ok = u.size() == distinct.size();
    for (auto& q : items) { if (!s.count(q)) set_ok = 0; if (!u.count(q)) uset_ok = 0; }
  }
  printf("{\"e\":\"CmpSummary\",\"type\":\"%s\",\"num\":\"%s\",\"ncomp\":%d,\"pairs\":%ld,\"ref_mismatch\":%ld,\"emitted\":%ld,\"set_ok\":%d,\"uset_ok\":%d}\n", name, NumName<T>::c, N, cnt, bad, emitted, set_ok, uset_ok);
}

// comparison of normalised types (directions): objects built from small-integer vectors (ties in leading components are frequent);
// the event carries the order ranks of the *stored* components, so TLC judges the six operators against the lexicographic order
template <class Ad> void compare_normalised(const char* name, uint64_t seed, int npairs) {
  using Q = typename Ad::Q; using T = typename Ad::T; constexpr int N = Ad::N; std::mt19937_64 g(seed); long cnt = 0, bad = 0, emitted = 0;
  for (int t = 0; t < npairs; t++) { T ca[9], cb[9]; for (int i = 0; i < N; i++) { ca[i] = (T)((int)(g() % 5) - 2); cb[i] = (g() % 3) ? ca[i] : (T)((int)(g() % 5) - 2); } if (t % 4 == 0) for (int i = 0; i < N; i++) cb[i] = ca[i] * 2;   // same direction
    Q a = Ad::make(ca), b = Ad::make(cb); T va[9], vb[9]; getc(a, va); getc(b, vb);
    std::vector<T> all; for (int i = 0; i < N; i++) { all.push_back(va[i] == 0 ? (T)0 : va[i]); all.push_back(vb[i] == 0 ? (T)0 : vb[i]); } std::sort(all.begin(), all.end()); all.erase(std::unique(all.begin(), all.end()), all.end());
    auto rk = [&](T x) { return (int)(std::lower_bound(all.begin(), all.end(), x == 0 ? (T)0 : x) - all.begin()); };
    int lt = a < b, le = a <= b, gt = a > b, ge = a >= b, eq = a == b, ne = a != b; int heq = std::hash<Q>()(a) == std::hash<Q>()(b);
    int c = 0; for (int i = 0; i < N && !c; i++) c = rk(va[i]) < rk(vb[i]) ? -1 : rk(va[i]) > rk(vb[i]) ? 1 : 0;
    bool ok = lt == (c < 0) && le == (c <= 0) && gt == (c > 0) && ge == (c >= 0) && eq == (c == 0) && ne == (c != 0) && (c != 0 || heq); cnt++; if (!ok) bad++;
    if ((!ok && bad <= 50) || t % std::max(1, npairs / 40) == 0) { printf("{\"e\":\"Cmp\",\"type\":\"%s\",\"num\":\"%s\",\"a\":[", name, NumName<T>::c); for (int i = 0; i < N; i++) printf("%s%d", i ? "," : "", rk(va[i]));
      printf("],\"b\":["); for (int i = 0; i < N; i++) printf("%s%d", i ? "," : "", rk(vb[i])); printf("],\"lt\":%d,\"le\":%d,\"gt\":%d,\"ge\":%d,\"eq\":%d,\"ne\":%d,\"heq\":%d}\n", lt, le, gt, ge, eq, ne, heq); emitted++; } }
  printf("{\"e\":\"CmpSummary\",\"type\":\"%s\",\"num\":\"%s\",\"ncomp\":%d,\"pairs\":%ld,\"ref_mismatch\":%ld,\"emitted\":%ld,\"set_ok\":1,\"uset_ok\":1}\n", name, NumName<T>::c, N, cnt, bad, emitted);
}

// ---- behaviours file ----
inline bool load_suite(const char* path, Suite& s) {
  FILE* f = fopen(path, "r"); if (!f) return false; s.patterns.assign(10, {});
  char* line = nullptr; size_t cap = 0; Behaviour cur; bool open = false;
  auto nums = [](std::istringstream& ss, std::vector<long>& v) { std::string tok; ss >> tok; v.clear(); if (tok == "-") return; std::istringstream t(tok); std::string x; while (std::getline(t, x, ',')) v.push_back(atol(x.c_str())); };
  while (getline(&line, &cap, f) > 0) {
    std::istringstream ss(line); std::string tag; ss >> tag;
    if (tag == "P") { int n; ss >> n; std::vector<long> v; nums(ss, v); s.patterns[n].push_back(v); }
    else if (tag == "B") { if (open) s.bs.push_back(cur); cur = Behaviour(); open = true; ss >> cur.ncomp >> cur.factor; std::string nd; while (ss >> nd) cur.needs.push_back(nd); }
    else if (tag == "S") { Step st; ss >> st.act >> st.dst >> st.a >> st.b >> st.n; if (st.dst == "-") st.dst = ""; if (st.a == "-") st.a = ""; if (st.b == "-") st.b = "";
      st.st.resize(3); st.defd.assign(3, 0); for (int i = 0; i < 3; i++) { std::string tok; std::streampos p = ss.tellg(); ss >> tok; if (tok == "U") { st.defd[i] = 0; } else { st.defd[i] = 1; std::istringstream t(tok); std::string x; while (std::getline(t, x, ',')) st.st[i].push_back(atol(x.c_str())); } (void)p; }
      nums(ss, st.obs); cur.steps.push_back(st); }
  }
  if (open) s.bs.push_back(cur); fclose(f); free(line); return true;
}
}  // namespace bat
