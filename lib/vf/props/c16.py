"""C16 — changing floating-point precision casts each component and nothing else."""
from .. import common as C, battery as B


def run(tier):
    chk = C.Check('C16', tier)
    exe, qs, ks = B.build()
    wd = C.work_dir('c16')
    evs = B.run_modes(exe, ks, ['cast'], n=400 if tier == 'quick' else 20000)
    res, result = B.validate(evs, qs, wd, 'c16')
    B.report(chk, 'Trace_Battery(precision casts)', evs, res, result, {'cast'})
    exp = 96 * 6
    if result and result['cast'] != exp:
        chk.note_inconclusive(f"cast pairs exercised {result['cast']} of {exp}")
    chk.layer('A', cast_events=len(evs), types=len({e['type'] for e in evs}), components_checked=sum(e['n'] for e in evs),
              note='first two value sets per pair are distinct integers per slot (slot preservation, exact); the rest are values not representable in the '
                   'narrower type (random mantissas; the whole source range; when narrowing also the midpoints of neighbouring destination values and the source values within two source ulps of them, where a cast through an intermediate type rounds twice), compared bit for bit with static_cast per component; converting construction and converting assignment; '
                   'widen-then-narrow identity; directions: within two ulps of the coarser type')
    chk.count(evaluations=sum(e['n'] for e in evs), distinct=len(evs))
    chk.cov['rule'] = 'one event per (type, ordered pair of distinct numeric types): 96 types x 6; each summarises n component casts'
    chk.cov['exhaustive'] = True
    for e in evs[:2] + [e for e in evs if e['normalised']][:1]:
        chk.sample(e)
    chk.assumptions += ['bitwise comparison of long double uses the 10 significant bytes of the x87 format']
    return chk.finish()
