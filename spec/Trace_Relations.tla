------------------------------- MODULE Trace_Relations -------------------------------
(* K1 binding for the relation graph (C03-A, C04 twins and operator meaning, C05-A, C18-A).      *)
(* Events: QDim (dimension set of each quantity type, derived from the symbol of its standard    *)
(* unit by Trace_Units), Rel (one per relation with its measured fingerprint), Twin, Pair, Def.  *)
(* State: the types and relations declared so far; Twin/Pair/Def events must refer to them.      *)
EXTENDS Relations, Theory, Json, IOUtils, TLC, Sequences, SequencesExt

CONSTANTS BudgetEquiv, BudgetInverse, BudgetDef, BudgetTheory
Facts == ndJsonDeserialize(IOEnv.FACTS)
VARIABLES l, qdim, qshape, rel, bad, stat, thseen
vars == <<l, qdim, qshape, rel, bad, stat, thseen>>
Init == /\ l = 1 /\ qdim = ("Number" :> DZero) /\ qshape = ("Number" :> 1) /\ rel = <<>> /\ bad = <<>> /\ thseen = {} /\ ModelsOK
        /\ stat = [rels |-> 0, twins |-> 0, pairs |-> 0, pairs_decided |-> 0, defs |-> 0, other |-> 0,
                 equiv |-> 0, twinnum |-> 0, inverse |-> 0, tensordefs |-> 0, monoreal |-> 0, tensordefreal |-> 0, opnative |-> 0, solved |-> 0, theory |-> 0, theory_relations |-> 0]
IsEvent(e) == l <= Len(Facts) /\ Facts[l].e = e /\ l' = l + 1
V(cls, key, detail) == [cls |-> cls, key |-> key, detail |-> detail]
Judge(checks) == bad' = bad \o [i \in 1..Len(SelectSeq(checks, LAMBDA c : ~c[1])) |->
                                   SelectSeq(checks, LAMBDA c : ~c[1])[i][2]]
Fp(r) == [cls |-> r.cls, norm |-> r.norm, deg2 |-> r.deg2, has_c |-> r.has_c, c2 |-> r.c2, neg |-> r.neg, coef |-> r.coef]
ArgDims(r) == [a \in 1..Len(r.args) |-> qdim[r.args[a]]]
AllScalar(r) == qshape[r.ret] = 1 /\ \A a \in 1..Len(r.args) : qshape[r.args[a]] = 1

(* a compound assignment  A op= B  (kind "cop": the value left in A) has the meaning of the pure operator *)
BaseOp(r) == IF r.kind = "cop" THEN (CASE r.op = "+=" -> "+" [] r.op = "-=" -> "-" [] r.op = "*=" -> "*" [] r.op = "/=" -> "/") ELSE r.op

TQDim == LET r == Facts[l] IN
  /\ IsEvent("QDim") /\ r.name \notin DOMAIN qdim /\ IsDim(r.dims)
  /\ qdim' = qdim @@ (r.name :> r.dims) /\ qshape' = qshape @@ (r.name :> r.ncomp)
  /\ UNCHANGED <<rel, bad, stat, thseen>>

TRel == LET r == Facts[l] IN
  /\ IsEvent("Rel") /\ r.id \notin DOMAIN rel
  /\ r.ret \in DOMAIN qdim /\ \A a \in 1..Len(r.args) : r.args[a] \in DOMAIN qdim
  /\ r.cls \in {"mono", "linear", "components", "other"}
  /\ r.cls = "mono" => Len(r.deg2) = Len(r.args)
  /\ r.cls = "linear" => Len(r.coef) = Len(r.args)
  /\ LET dC == qdim[r.ret]  dA == ArgDims(r) IN
     Judge((IF r.kind \in {"op", "cop"}
            THEN << <<OpDimsOK(BaseOp(r), dA[1], dA[2], dC), V("op_dims", r.name, r.ret)>>,
                    <<OpFingerprintOK(BaseOp(r), Fp(r), AllScalar(r)), V("op_semantics", r.name, r.cls)>> >>
            ELSE <<>>)
           \o (CASE r.cls = "mono"       -> << <<MonoDimsOK(r.deg2, dA, dC), V("mono_dims", r.name, r.ret)>> >>
                 [] r.cls = "linear"     -> << <<LinearDimsOK(r.coef, dA, dC), V("linear_dims", r.name, r.ret)>> >>
                 [] r.cls = "components" -> << <<ComponentsDimsOK(dA, dC), V("components_dims", r.name, r.ret)>> >>
                 [] OTHER                -> << <<FALSE, V("inconclusive_fingerprint", r.name, r.ret)>> >>))
  /\ rel' = rel @@ (r.id :> r)
  /\ stat' = [stat EXCEPT !.rels = @ + 1, !.other = @ + (IF r.cls = "other" THEN 1 ELSE 0)]
  /\ UNCHANGED <<qdim, qshape, thseen>>

(* operator  A op B -> C  and constructor  C(A,B) (perm 0) or C(B,A) (perm 1) *)
TTwin == LET r == Facts[l] IN
  /\ IsEvent("Twin") /\ r.op \in DOMAIN rel /\ r.ctor \in DOMAIN rel
  /\ LET o == rel[r.op]  c == rel[r.ctor] IN
     /\ o.kind = "op" /\ c.kind = "ctor" /\ c.ret = o.ret /\ Len(c.args) = 2
     /\ Permute(c.args, r.perm) = o.args
     /\ Judge(<< <<TwinOK(Fp(o), Fp(c), r.perm), V("twin_mismatch", o.name, c.name)>> >>)
  /\ stat' = [stat EXCEPT !.twins = @ + 1]
  /\ UNCHANGED <<qdim, qshape, rel, thseen>>

TPair == LET r == Facts[l] IN
  /\ IsEvent("Pair") /\ r.fwd \in DOMAIN rel /\ r.back \in DOMAIN rel
  /\ LET f == rel[r.fwd]  g == rel[r.back]  n == Len(f.args) IN
     /\ n \in {1, 2} /\ Len(g.args) = n /\ r.posA \in 1..n /\ r.posC \in 1..n
     /\ g.ret = f.args[r.posA] /\ g.args[r.posC] = f.ret                  \* signatures are inverse
     /\ n = 2 => g.args[Other(r.posC)] = f.args[Other(r.posA)]
     /\ (f.kind = "op" /\ g.kind = "op") => DualOp(f.op, r.posA, g.op, r.posC)
     /\ Judge(<< <<InverseOK(Fp(f), Fp(g), r.posA, r.posC, n), V("not_inverse", f.name, g.name)>>,
                 <<InverseDecidable(Fp(f), Fp(g)), V("inconclusive_pair", f.name, g.name)>> >>)
     /\ stat' = [stat EXCEPT !.pairs = @ + 1,
                             !.pairs_decided = @ + (IF InverseDecidable(Fp(f), Fp(g)) THEN 1 ELSE 0)]
  /\ UNCHANGED <<qdim, qshape, rel, thseen>>

(* C18: a named definition must exist in the graph and carry the textbook fingerprint *)
TDef == LET r == Facts[l] IN
  /\ IsEvent("Def") /\ r.def \in DOMAIN Definition
  /\ LET d == Definition[r.def] IN
     IF r.rel = -1
     THEN Judge(<< <<FALSE, V("definition_missing", r.def, d.sig)>> >>)
     ELSE /\ r.rel \in DOMAIN rel
          /\ LET x == rel[r.rel] IN
             /\ x.ret = d.ret /\ x.args = d.args
             /\ Judge(<< <<DefinitionOK(d, Fp(x)), V("definition_formula", r.def, x.name)>> >>)
  /\ stat' = [stat EXCEPT !.defs = @ + 1]
  /\ UNCHANGED <<qdim, qshape, rel, thseen>>

(* ---- numeric layer: abstract events measured on the real code in float, double, long double ---- *)
(* C03-B: rescaling the seven base units by independent powers of two rescales the result by the   *)
(* factor its dimension set predicts (exact for IEEE * / sqrt; BudgetEquiv ulps to allow std::pow)  *)
TEquiv == LET r == Facts[l] IN
  /\ IsEvent("Equiv") /\ r.id \in DOMAIN rel /\ r.num \in {"f", "d", "l"}
  /\ Judge(<< <<r.nonfinite = 0 /\ r.ulps <= BudgetEquiv, V("not_equivariant", rel[r.id].name, r.num)>>,
              <<r.n > 0, V("inconclusive_equiv", rel[r.id].name, r.num)>> >>)
  /\ stat' = [stat EXCEPT !.equiv = @ + 1]
  /\ UNCHANGED <<qdim, qshape, rel, thseen>>
(* C04-B: every operator instance returns, bit for bit, the native (correctly rounded) operation on the stored values in the written order *)
TOpNative == LET r == Facts[l] IN
  /\ IsEvent("OpNative") /\ r.id \in DOMAIN rel /\ rel[r.id].kind \in {"op", "cop"} /\ r.n > 0      \* cop: compound assignment with a right-hand side of another quantity type
  /\ Judge(<< <<r.diff = 0, V("op_not_native", rel[r.id].name, r.num)>> >>)
  /\ stat' = [stat EXCEPT !.opnative = @ + 1]
  /\ UNCHANGED <<qdim, qshape, rel, thseen>>
(* C04-B: a constructor twin returns the bit-identical value of its operator *)
TTwinNum == LET r == Facts[l] IN
  /\ IsEvent("TwinNum") /\ r.op \in DOMAIN rel /\ r.ctor \in DOMAIN rel
  /\ Judge(<< <<r.diff = 0, V("twin_value_differs", rel[r.op].name, rel[r.ctor].name)>> >>)
  /\ stat' = [stat EXCEPT !.twinnum = @ + 1]
  /\ UNCHANGED <<qdim, qshape, rel, thseen>>
(* C05-B: composing the two relations returns the original within BudgetInverse ulps (twice that *)
(* when a square root is involved, twice for the rational heat-capacity-ratio forms).  Where the *)
(* intermediate quantity is the heat capacity ratio itself the harness has divided the error by  *)
(* gamma/(gamma - 1): rounding gamma to the numeric type loses gamma - 1 to that relative         *)
(* accuracy whatever the formulas; every other round trip of the family is well conditioned.     *)
TInverse == LET r == Facts[l] IN
  /\ IsEvent("Inverse") /\ r.fwd \in DOMAIN rel /\ r.back \in DOMAIN rel
  /\ Judge(<< <<r.nonfinite = 0 /\ r.ulps <= r.kappa * (IF r.sqrt = 1 THEN 2 * BudgetInverse ELSE BudgetInverse),
                V("round_trip", rel[r.fwd].name, rel[r.back].name)>>,
              <<r.n > 0, V("inconclusive_round_trip", rel[r.fwd].name, rel[r.back].name)>> >>)
  /\ stat' = [stat EXCEPT !.inverse = @ + 1]
  /\ UNCHANGED <<qdim, qshape, rel, thseen>>

(* C18: a relation among exactly the quantity types of a named definition states the same identity, solved for another variable *)
TSolved == LET r == Facts[l] IN
  /\ IsEvent("Solved") /\ r.def \in DOMAIN Definition /\ r.rel \in DOMAIN rel
  /\ LET d == Definition[r.def]  x == rel[r.rel] IN
     /\ {x.ret} \cup {x.args[i] : i \in 1..Len(x.args)} = {d.ret} \cup {d.args[i] : i \in 1..Len(d.args)}
     /\ Judge(<< <<x.cls \notin {"mono", "linear"} \/ SolvedOK(d, x.ret, x.args, Fp(x)), V("definition_solved_form", r.def, x.name)>> >>)
  /\ stat' = [stat EXCEPT !.solved = @ + 1]
  /\ UNCHANGED <<qdim, qshape, rel, thseen>>
(* C18 tensor-valued definitions on integer tensors (exact): recorded through the relations evaluator *)
TTensorDef == LET r == Facts[l] IN
  /\ IsEvent("TensorDef") /\ r.rel \in DOMAIN rel
  /\ Judge(<< <<r.exact /\
                CASE r.def = "strain_of_gradient" -> TwiceStrainOfGradient(r.a) = [i \in 1..6 |-> 2 * r.out[i]]
                  [] r.def = "volumetric_strain"  -> ThriceVolumetricStrain(r.a[1] * r.b[1]) = [i \in 1..6 |-> 3 * r.out[i]]
                  [] r.def = "von_mises"          -> TwiceVonMisesSq(r.a) = r.out[1]          \* out = 2 * vm^2 snapped
                  [] r.def = "traction"           -> TractionOf(r.a, r.b) = r.out
                  [] r.def = "planar_traction"    -> <<TractionOf(r.a, <<r.b[1], r.b[2], 0>>)[1], TractionOf(r.a, <<r.b[1], r.b[2], 0>>)[2]>> = r.out
                  [] r.def = "isotropic_stress"   -> StressOfPressure(r.a[1]) = r.out,
                V("tensor_definition", rel[r.rel].name, r.def)>> >>)
  /\ stat' = [stat EXCEPT !.tensordefs = @ + 1]
  /\ UNCHANGED <<qdim, qshape, rel, thseen>>
(* C18 numeric layer: every all-scalar monomial relation against c * prod x^p in __float128; tensor definitions against their formulas *)
TMonoReal == LET r == Facts[l] IN
  /\ IsEvent("MonoReal") /\ r.id \in DOMAIN rel /\ r.num \in {"f", "d", "l"}
  /\ Judge(<< <<r.nonfinite = 0 /\ r.ulps <= (IF r.sqrt = 1 THEN 2 * BudgetDef ELSE BudgetDef), V("formula_value", rel[r.id].name, r.num)>>,
              <<r.n > 0, V("inconclusive_formula_value", rel[r.id].name, r.num)>> >>)
  /\ stat' = [stat EXCEPT !.monoreal = @ + 1]
  /\ UNCHANGED <<qdim, qshape, rel, thseen>>
TTensorDefReal == LET r == Facts[l] IN
  /\ IsEvent("TensorDefReal") /\ r.id \in DOMAIN rel
  /\ Judge(<< <<r.nonfinite = 0 /\ r.ulps <= 2 * BudgetDef, V("tensor_definition_value", rel[r.id].name, r.num)>> >>)
  /\ stat' = [stat EXCEPT !.tensordefreal = @ + 1]
  /\ UNCHANGED <<qdim, qshape, rel, thseen>>

(* C18, derived forms: the relation evaluated on the real code AT a model of the theory (Theory.tla; the argument values are the   *)
(* specification's, handed to the harness by MC_Theory) returns the state's value of its result type.  The harness reports the    *)
(* result snapped to the nearest small rational and its distance from it in ulps of the numeric type.                              *)
TTheory == LET r == Facts[l] IN
  /\ IsEvent("Theory") /\ r.rel \in DOMAIN rel /\ r.state \in 1..Len(TheoryStates) /\ r.num \in {"f", "d", "l"}
  /\ <<r.rel, r.state, r.num>> \notin thseen
  /\ LET x == rel[r.rel]  s == TheoryStates[r.state] IN
     /\ InTheory(x.ret, x.args)
     /\ r.args = TheoryArgs(s, x.args)                                  \* the harness evaluated the relation at the specification's state
     /\ Judge(<< <<r.finite /\ TheoryResultOK(s, x.ret, r.out) /\ r.ulps <= BudgetTheory, V("theory_consistency", x.name, r.num)>> >>)
  /\ thseen' = thseen \cup {<<r.rel, r.state, r.num>>}
  /\ stat' = [stat EXCEPT !.theory = @ + 1]
  /\ UNCHANGED <<qdim, qshape, rel>>

(* every relation the theory decides has been evaluated at every state in every numeric type *)
TheoryRelations == {id \in DOMAIN rel : InTheory(rel[id].ret, rel[id].args)}
TheoryUncovered == {id \in TheoryRelations : \E k \in 1..Len(TheoryStates), num \in {"f", "d", "l"} : <<id, k, num>> \notin thseen}
TFinish == /\ l = Len(Facts) + 1 /\ l' = l + 1
           /\ LET unc == SetToSeq(TheoryUncovered)
                  final == bad \o [i \in 1..Len(unc) |-> V("theory_uncovered", rel[unc[i]].name, "")] IN
              JsonSerialize(IOEnv.OUT, [bad |-> final, stat |-> [stat EXCEPT !.theory_relations = Cardinality(TheoryRelations)]])
           /\ UNCHANGED <<qdim, qshape, rel, bad, stat, thseen>>
Next == TQDim \/ TRel \/ TTwin \/ TPair \/ TDef \/ TEquiv \/ TOpNative \/ TTwinNum \/ TInverse \/ TSolved \/ TTensorDef \/ TMonoReal \/ TTensorDefReal \/ TTheory \/ TFinish
Spec == Init /\ [][Next]_vars
Accepted == TLCGet("stats").diameter - 2 = Len(Facts)
=============================================================================
