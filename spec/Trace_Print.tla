------------------------------- MODULE Trace_Print -------------------------------
(* Acceptance of the printing events against NumFormat.tla.                                          *)
EXTENDS NumFormat, Json, IOUtils, FiniteSets
Events == ndJsonDeserialize(IOEnv.TRACE)
Shapes == JsonDeserialize(IOEnv.SHAPES)
VARIABLES l, bad, decades, composed
vars == <<l, bad, decades, composed>>
Init == l = 1 /\ bad = <<>> /\ decades = {} /\ composed = {}
IsEvent(e) == l <= Len(Events) /\ Events[l].e = e /\ l' = l + 1
Flag(ok, rec) == bad' = IF ok \/ Len(bad) >= 400 THEN bad ELSE Append(bad, rec)
TPrintClass == LET r == Events[l]  isZero == r.notation = "zero" \/ r.e10 = -9999 IN
  /\ IsEvent("PrintClass") /\ r.num \in {"f", "d", "l"} /\ r.n > 0
  (* at a power of ten that is not representable the nearest representable value may fall in either class *)
  /\ Flag(r.at_boundary = 1 \/ NumberOK(r.num, r.e10, r.e10 = -9999, r.notation, r.sig, r.roundtrip = 1),
          [cls |-> "number_format", key |-> r.num, e10 |-> r.e10, text |-> r.text, x |-> r.x])
  /\ decades' = IF isZero THEN decades ELSE decades \cup {<<r.num, r.e10, r.neg>>}
  /\ UNCHANGED composed
(* the forms that take a unit have the grammar of the corresponding form without argument (numbers of Value(unit), abbreviation of that unit) *)
UnitForm == [Print_unit |-> "Print", JSON_unit |-> "JSON", XML_unit |-> "XML", YAML_unit |-> "YAML"]
TCompose == LET r == Events[l] IN
  /\ IsEvent("Composite") /\ r.type \in DOMAIN Shapes /\ r.form \in {"Print", "JSON", "XML", "YAML", "stream", "Print_unit", "JSON_unit", "XML_unit", "YAML_unit"}
  /\ (r.form \in DOMAIN UnitForm) => (r.dimensional /\ r.unit \in {"std", "alt"})
  /\ Flag(r.numbers_ok /\ r.template = Template(Shapes[r.type], r.dimensional, IF r.form \in DOMAIN UnitForm THEN UnitForm[r.form] ELSE r.form),
          [cls |-> "composite_form", key |-> r.type \o ":" \o r.form \o ":" \o r.num, e10 |-> 0, text |-> r.template, x |-> ""])
  /\ composed' = composed \cup {<<r.type, r.num, r.form>>}
  /\ UNCHANGED decades
Missing(num) == {k \in DecadeRange[num][1]..DecadeRange[num][2] : <<num, k, 0>> \notin decades \/ <<num, k, 1>> \notin decades}
TFinish == /\ l = Len(Events) + 1 /\ l' = l + 1
           /\ JsonSerialize(IOEnv.OUT, [bad |-> bad, decades |-> Cardinality(decades), composed |-> Cardinality(composed),
                 decades_missing |-> Cardinality(Missing("f")) + Cardinality(Missing("d")) + Cardinality(Missing("l"))])
           /\ UNCHANGED <<bad, decades, composed>>
Next == TPrintClass \/ TCompose \/ TFinish
Spec == Init /\ [][Next]_vars
Accepted == TLCGet("stats").diameter - 2 = Len(Events)
=============================================================================
