SPECIFICATION Spec
INVARIANT Models
INVARIANT NonVacuous
CHECK_DEADLOCK FALSE
