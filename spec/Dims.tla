------------------------------- MODULE Dims -------------------------------
(* Physical dimension sets as exponent 7-tuples over the base dimensions, in the library's      *)
(* declared order  T (time), L (length), M (mass), I (electric current), Th (temperature),      *)
(* N (substance amount), J (luminous intensity).  Hand-written; nothing is read from the code.  *)
EXTENDS Integers, Sequences

NDim      == 7
DimLetter == <<"T", "L", "M", "I", "Th", "N", "J">>      \* ASCII names; Th prints as Θ
DimPrint  == <<"T", "L", "M", "I", "Θ", "N", "J">>

DZero        == <<0, 0, 0, 0, 0, 0, 0>>
IsDim(d)     == Len(d) = NDim
DAdd(a, b)   == [i \in 1..NDim |-> a[i] + b[i]]
DSub(a, b)   == [i \in 1..NDim |-> a[i] - b[i]]
DScale(k, a) == [i \in 1..NDim |-> k * a[i]]
DBase(i)     == [j \in 1..NDim |-> IF j = i THEN 1 ELSE 0]

(* Printing contract (C06): the non-zero exponents in declared order, X for 1, X^n for n > 1,   *)
(* X^(-n) for n < 0, tokens joined by a centred dot; "1" when dimensionless.  A token is the    *)
(* pair <<letter index, exponent>>; the harness parses the printed string into such pairs with  *)
(* a full-match grammar, so the comparison is on structure, not on bytes.                        *)
RECURSIVE PrintTokensFrom(_, _)
PrintTokensFrom(d, i) ==
  IF i > NDim THEN <<>>
  ELSE IF d[i] = 0 THEN PrintTokensFrom(d, i + 1)
       ELSE <<<<i, d[i]>>>> \o PrintTokensFrom(d, i + 1)
PrintTokens(d) == PrintTokensFrom(d, 1)
PrintsAsOne(d) == d = DZero
(* exponent 1 prints bare, n>1 prints ^n, n<0 prints ^(n): the 'form' field of a parsed token  *)
TokenForm(n) == IF n = 1 THEN "bare" ELSE IF n > 1 THEN "caret" ELSE "paren"

(* Ordering contract: lexicographic on the 7-tuple; the six operators are derived from it.      *)
RECURSIVE LexLessFrom(_, _, _)
LexLessFrom(a, b, i) ==
  IF i > Len(a) THEN FALSE
  ELSE IF a[i] # b[i] THEN a[i] < b[i] ELSE LexLessFrom(a, b, i + 1)
DLess(a, b) == LexLessFrom(a, b, 1)
DEq(a, b)   == a = b
DCompare(a, b) == [lt |-> DLess(a, b), gt |-> DLess(b, a), le |-> ~DLess(b, a), ge |-> ~DLess(a, b),
                   eq |-> a = b, ne |-> a # b]
=============================================================================
