"""C06 — declared dimension sets equal the dimensions of the units themselves; printing, ordering
and hash of Dimensions are those of the exponent 7-tuple."""
import json
import os

from .. import common as C, unitsfacts as U


def run(tier):
    chk = C.Check('C06', tier)
    # ---- Layer A part 1: K1 facts (dims of every unit symbol, every quantity type)
    out = U.run()
    U.report(chk, 'C06', out)
    f = out['facts']
    units_ = [e for e in f if e['e'] == 'Enumerator' and e['kind'] == 'unit']
    qts = [e for e in f if e['e'] == 'QType']
    chk.layer('A.symbols', units=len(units_), unit_types=len(out['units']), quantity_types=len(qts))
    # ---- Layer A part 2: K3 print/order/hash over an exponent box
    R, sample = (2, 20000) if tier == 'quick' else (3, 60000)
    exe = C.compile_cxx('dims_box', [os.path.join(C.HARNESS, 'dims_box.cpp')])
    wd = C.work_dir('c06')
    tp = os.path.join(wd, 'dims.ndjson')
    with open(tp, 'wb') as fh:
        fh.write(C.run([exe, str(R), str(C.SEED), str(sample)], timeout=900).stdout)
    evs = [json.loads(x) for x in open(tp)]
    summ = [e for e in evs if e['e'] == 'DimSummary'][0]
    outp = os.path.join(wd, 'bad.json')
    res = C.run_tlc('Trace_Dims', 'Trace_Dims.cfg', env={'TRACE': tp, 'OUT': outp}, workers=1, timeout=900)
    chk.add_tlc('Trace_Dims(K3 print/order/hash)', res, traces=1, events=len(evs))
    if not (res.ok and os.path.exists(outp)):
        k = res.distinct - 1
        chk.violation('dims_trace_rejected', f'Trace_Dims rejected event {k}: {evs[k] if k < len(evs) else None}', evs[k] if k < len(evs) else None)
    else:
        j = json.load(open(outp))
        for b in j['bad']:
            if b['cls'].startswith('extra_'):
                chk.beyond(f"Dimensions::{b['form']}() of {b['d']} does not list exactly the non-zero exponents in the order T L M I Th N J")
                continue
            key = b['cls'] + ':' + json.dumps(b.get('d', b.get('a', b.get('s', ''))))
            chk.violation(key, f'{b}', b)
        if j['seen']['prints'] == 0 or j['seen']['cmps'] == 0 or j['seen']['ties'] == 0 or j['seen']['summary'] != 1:
            raise C.ToolError('vacuous Trace_Dims run: ' + str(j['seen']))
        chk.layer('A.box', box=f'[-{R},{R}]^7', tuples_printed=summ['prints'], comparisons=summ['cmps'],
                  events_validated_by_tlc=len(evs), tie_events=j['seen']['ties'], serialisations=summ.get('serials', 0),
                  note='JSON / XML / YAML of every tuple of the box are parsed with a full-match grammar and compared with the non-zero exponents in order; no listed property constrains them, so a mismatch is reported as a NOTE only (the calls themselves are in scope of C20 through the sanitized re-run)')
    # ---- the specification's own order/print lemmas at small scope
    mc = C.run_tlc('MC_Dims', 'MC_Dims.cfg' if tier == 'quick' else 'MC_Dims_thorough.cfg', workers=8, timeout=900)
    chk.add_tlc('MC_Dims(order is strict total; print sound)', mc)
    if not mc.ok:
        raise C.ToolError('MC_Dims failed: the specification of the order is itself inconsistent\n' + mc.out[-2000:])
    chk.count(evaluations=len(units_) + len(qts) + summ['prints'] + summ['cmps'],
              distinct=len(units_) + len(qts) + summ['prints'] + summ['cmps'])
    chk.cov['rule'] = ('every unit symbol (514) and quantity type (92) is one fact; box: every exponent 7-tuple is printed once and '
                       'compared with itself and 7 tie-forcing partners (equal prefix of each length); all distinct by construction')
    chk.cov['exhaustive'] = True
    for e in units_[:2] + qts[:1] + [e for e in evs if e['e'] == 'DimPrint'][:2] + [e for e in evs if e['e'] == 'DimCmp'][:2]:
        chk.sample(e)
    chk.assumptions += ['spec/atoms.def dimension of each unit atom (hand-written)',
                        'the harness parser of printed dimension sets is full-match; unparsable output is a violation',
                        'hash: equal tuples must hash equally and the hash must depend on each of the seven exponents']
    return chk.finish()
