SPECIFICATION Spec
CONSTANTS Regs = {"r1", "r2", "r3"}  MaxAbs = 100000  Depth = 9
INVARIANT TypeOK
INVARIANT Emit
CONSTRAINT Bound
CHECK_DEADLOCK FALSE
