SPECIFICATION Spec
CONSTANTS BudgetMul = 16  BudgetAffine = 16  BudgetEntry = 1
POSTCONDITION Accepted
CHECK_DEADLOCK FALSE
