// K3 for spec/Slots.tla: random programs over the named setters, mutable references, whole-tuple setters, Zero(), symmetric-to-general
// assignment, named reads and IsSymmetric on the four raw shapes and on one quantity type per shape (through MutableValue() / Value()),
// three numeric types.  Every step is logged with the full slot tuple read through the whole-array accessor; Trace_Slots.tla recomputes
// each successor state.     slots <seed> <random steps per execution>
#include <array>
#include <cstdint>
#include <cstdio>
#include <cstdlib>
#include <random>
#include <string>
#include <vector>

#include "PhQ/Displacement.hpp"
#include "PhQ/Dyad.hpp"
#include "PhQ/PlanarDisplacement.hpp"
#include "PhQ/PlanarVector.hpp"
#include "PhQ/Stress.hpp"
#include "PhQ/SymmetricDyad.hpp"
#include "PhQ/Vector.hpp"
#include "PhQ/VelocityGradient.hpp"

using namespace PhQ;
template <class T> struct NumName;
template <> struct NumName<float> { static constexpr const char* c = "f"; };
template <> struct NumName<double> { static constexpr const char* c = "d"; };
template <> struct NumName<long double> { static constexpr const char* c = "l"; };

// ---- per-shape tables of the named entry points --------------------------------------------------------------------------------------
template <class Raw> struct Shape;
#define NAMED(N) {#N, [](Raw& r, T v) { r.Set_##N(v); }, [](Raw& r, T v) { r.Mutable_##N() = v; }, [](const Raw& r) { return r.N(); }}
template <class T, class Raw> struct Entry { const char* name; void (*set)(Raw&, T); void (*mut)(Raw&, T); T (*read)(const Raw&); };
template <class T> struct Shape<PlanarVector<T>> {
  using Raw = PlanarVector<T>; static constexpr int N = 2; static constexpr const char* name = "PlanarVector";
  static std::vector<Entry<T, Raw>> entries() { return {NAMED(x), NAMED(y)}; }
  static std::array<T, N> all(const Raw& r) { return r.x_y(); }
  static void set_array(Raw& r, const std::array<T, N>& t) { r.Set_x_y(t); }
  static void set_list(Raw& r, const std::array<T, N>& t) { r.Set_x_y(t[0], t[1]); }
  static void mut_all(Raw& r, const std::array<T, N>& t) { r.Mutable_x_y() = t; }
};
template <class T> struct Shape<Vector<T>> {
  using Raw = Vector<T>; static constexpr int N = 3; static constexpr const char* name = "Vector";
  static std::vector<Entry<T, Raw>> entries() { return {NAMED(x), NAMED(y), NAMED(z)}; }
  static std::array<T, N> all(const Raw& r) { return r.x_y_z(); }
  static void set_array(Raw& r, const std::array<T, N>& t) { r.Set_x_y_z(t); }
  static void set_list(Raw& r, const std::array<T, N>& t) { r.Set_x_y_z(t[0], t[1], t[2]); }
  static void mut_all(Raw& r, const std::array<T, N>& t) { r.Mutable_x_y_z() = t; }
};
#define NINE NAMED(xx), NAMED(xy), NAMED(xz), NAMED(yx), NAMED(yy), NAMED(yz), NAMED(zx), NAMED(zy), NAMED(zz)
template <class T> struct Shape<SymmetricDyad<T>> {
  using Raw = SymmetricDyad<T>; static constexpr int N = 6; static constexpr const char* name = "SymmetricDyad";
  static std::vector<Entry<T, Raw>> entries() { return {NINE}; }
  static std::array<T, N> all(const Raw& r) { return r.xx_xy_xz_yy_yz_zz(); }
  static void set_array(Raw& r, const std::array<T, N>& t) { r.Set_xx_xy_xz_yy_yz_zz(t); }
  static void set_list(Raw& r, const std::array<T, N>& t) { r.Set_xx_xy_xz_yy_yz_zz(t[0], t[1], t[2], t[3], t[4], t[5]); }
  static void mut_all(Raw& r, const std::array<T, N>& t) { r.Mutable_xx_xy_xz_yy_yz_zz() = t; }
};
template <class T> struct Shape<Dyad<T>> {
  using Raw = Dyad<T>; static constexpr int N = 9; static constexpr const char* name = "Dyad";
  static std::vector<Entry<T, Raw>> entries() { return {NINE}; }
  static std::array<T, N> all(const Raw& r) { return r.xx_xy_xz_yx_yy_yz_zx_zy_zz(); }
  static void set_array(Raw& r, const std::array<T, N>& t) { r.Set_xx_xy_xz_yx_yy_yz_zx_zy_zz(t); }
  static void set_list(Raw& r, const std::array<T, N>& t) { r.Set_xx_xy_xz_yx_yy_yz_zx_zy_zz(t[0], t[1], t[2], t[3], t[4], t[5], t[6], t[7], t[8]); }
  static void mut_all(Raw& r, const std::array<T, N>& t) { r.Mutable_xx_xy_xz_yx_yy_yz_zx_zy_zz() = t; }
};

// ---- carriers ---------------------------------------------------------------------------------------------------------------------------
template <class Raw> struct RawCarrier {
  Raw obj = Raw::Zero(); static constexpr const char* name = "raw";
  Raw& mut() { return obj; } const Raw& get() const { return obj; } void zero() { obj = Raw::Zero(); } void assign(const Raw& r) { obj = r; }
};
template <class Q, class Raw> struct QuantityCarrier {
  Q obj = Q::Zero(); static constexpr const char* name = "quantity";
  Raw& mut() { return obj.MutableValue(); } const Raw& get() const { return obj.Value(); } void zero() { obj = Q::Zero(); } void assign(const Raw& r) { obj.SetValue(r); }
};

template <class T, size_t N> static void pj(const char* k, const std::array<T, N>& a) { printf(",\"%s\":[", k); for (size_t i = 0; i < N; i++) printf("%s%lld", i ? "," : "", (long long)a[i]); printf("]"); }
template <class T, class Raw, class Car> struct Exec {
  using S = Shape<Raw>; Car car; std::mt19937_64 g; std::vector<Entry<T, Raw>> en = S::entries();
  explicit Exec(uint64_t seed) : g(seed) {}
  void head(const char* e) { printf("{\"e\":\"%s\",\"shape\":\"%s\",\"carrier\":\"%s\",\"num\":\"%s\"", e, S::name, Car::name, NumName<T>::c); }
  void tail() { pj("comps", S::all(car.get())); printf("}\n"); }
  T val() { long v = (long)(g() % 19) - 9; return (T)(v == 0 ? 4 : v); }
  std::array<T, S::N> tup() { std::array<T, S::N> t; for (auto& x : t) x = val(); return t; }
  void set_one(size_t i, bool viaref) { T v = val(); if (viaref) en[i].mut(car.mut(), v); else en[i].set(car.mut(), v); head(viaref ? "MutOne" : "SetOne"); printf(",\"name\":\"%s\",\"v\":%lld", en[i].name, (long long)v); tail(); }
  void read_one(size_t i) { T o = en[i].read(car.get()); head("ReadOne"); printf(",\"name\":\"%s\",\"obs\":%lld", en[i].name, (long long)o); tail(); }
  void set_all(int how) { auto t = tup(); const char* e = "SetAllArray";
    if (how == 0) S::set_array(car.mut(), t); else if (how == 1) { S::set_list(car.mut(), t); e = "SetAllList"; } else if (how == 2) { S::mut_all(car.mut(), t); e = "MutAll"; } else { if (how == 3) car.assign(Raw(t)); else car.mut() = t;   /* operator=(std::array) of the raw shape */ e = "AssignArray"; }
    head(e); pj("t", t); tail(); }
  void zero() { car.zero(); head("Zero"); tail(); }
  template <class R = Raw> void dyad_only(int how) {
    if constexpr (std::is_same<R, Dyad<T>>::value) {
      if (how == 0) { bool s = car.get().IsSymmetric(); head("IsSym"); printf(",\"obs\":%d", s ? 1 : 0); tail(); }
      else { std::array<T, 6> t; for (auto& x : t) x = val(); SymmetricDyad<T> sd(t);
        if (how == 1) { Dyad<T> d = Dyad<T>::Zero(); d = sd; car.assign(d); head("AssignSym"); } else { car.assign(Dyad<T>(sd)); head("ConstructSym"); }
        pj("t", t); tail(); } } }
  void run(int steps) {
    head("Reset"); tail();
    for (size_t i = 0; i < en.size(); i++) { set_one(i, false); for (size_t j = 0; j < en.size(); j++) read_one(j); set_one(i, true); read_one(i); }   // every name, both entry points
    for (int h = 0; h < 5; h++) { set_all(h); read_one(g() % en.size()); }
    zero(); dyad_only(0); dyad_only(1); dyad_only(0); dyad_only(2); dyad_only(0);
    for (int k = 0; k < steps; k++) { unsigned c = g() % 16;
      if (c < 5) set_one(g() % en.size(), false); else if (c < 9) set_one(g() % en.size(), true); else if (c < 12) read_one(g() % en.size());
      else if (c < 14) set_all((int)(g() % 5)); else if (c == 14) dyad_only((int)(g() % 3)); else zero(); }
  }
};
template <class T> static void all_for(uint64_t seed, int steps) {
  Exec<T, PlanarVector<T>, RawCarrier<PlanarVector<T>>>(seed + 1).run(steps);
  Exec<T, Vector<T>, RawCarrier<Vector<T>>>(seed + 2).run(steps);
  Exec<T, SymmetricDyad<T>, RawCarrier<SymmetricDyad<T>>>(seed + 3).run(steps);
  Exec<T, Dyad<T>, RawCarrier<Dyad<T>>>(seed + 4).run(steps);
  Exec<T, PlanarVector<T>, QuantityCarrier<PlanarDisplacement<T>, PlanarVector<T>>>(seed + 5).run(steps);
  Exec<T, Vector<T>, QuantityCarrier<Displacement<T>, Vector<T>>>(seed + 6).run(steps);
  Exec<T, SymmetricDyad<T>, QuantityCarrier<Stress<T>, SymmetricDyad<T>>>(seed + 7).run(steps);
  Exec<T, Dyad<T>, QuantityCarrier<VelocityGradient<T>, Dyad<T>>>(seed + 8).run(steps);
}
int main(int argc, char** argv) {
  uint64_t seed = argc > 1 ? strtoull(argv[1], 0, 10) : 1; int steps = argc > 2 ? atoi(argv[2]) : 60;
  all_for<float>(seed, steps); all_for<double>(seed + 100, steps); all_for<long double>(seed + 200, steps);
  return 0;
}
