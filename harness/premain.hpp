// C19 conformance, quantity level: everything a namespace-scope object can do with a quantity before main() must give what the
// same expressions give inside main().
#pragma once
#include <cstdio>
#include <cstring>
#include <functional>
#include <sstream>
#include <string>
#include <vector>
#include "battery.hpp"
namespace pm {
struct Rec { std::vector<std::string> text; std::vector<long double> num; };
template <class Q, class = void> struct has_unit : std::false_type {};
template <class Q> struct has_unit<Q, std::void_t<decltype(Q::Unit())>> : std::true_type {};
// Ad as in battery.hpp; U: unit value (ignored for dimensionless types)
template <class Ad, class UV> Rec compute(UV nonstd) {
  using Q = typename Ad::Q; using T = typename Ad::T; constexpr int N = Ad::N; Rec r;
  T c[9]; for (int i = 0; i < N; i++) c[i] = (T)((i + 2) * 0.75L) * ((i & 1) ? -1 : 1);
  Q q = Ad::make(c); T v[9]; bat::getc(q, v); for (int i = 0; i < N; i++) r.num.push_back(v[i]);
  std::ostringstream os; os << q;
  r.text = {q.Print(), q.JSON(), q.XML(), q.YAML(), os.str()};
  r.num.push_back((long double)(q == q)); r.num.push_back((long double)(q < q)); r.num.push_back((long double)(std::hash<Q>()(q) % 1000003));
  if constexpr (has_unit<Q>::value) {
    using V = std::decay_t<decltype(q.Value())>; V raw = bat::rawmake(c, (V*)nullptr);
    Q built(raw, nonstd); T b[9]; bat::getc(built, b); for (int i = 0; i < N; i++) r.num.push_back(b[i]);          // construct from a value in a non-standard unit
    auto inu = q.Value(nonstd); T u[9]; bat::put(inu, u); for (int i = 0; i < N; i++) r.num.push_back(u[i]);          // read back in that unit
    r.text.push_back(q.Print(nonstd)); r.text.push_back(q.JSON(nonstd)); r.text.push_back(q.XML(nonstd)); r.text.push_back(q.YAML(nonstd));
    r.text.push_back(std::string(PhQ::Abbreviation(nonstd))); r.text.push_back(std::string(PhQ::Abbreviation(Q::Unit())));
    auto p = PhQ::ParseEnumeration<std::decay_t<decltype(Q::Unit())>>(PhQ::Abbreviation(nonstd)); r.num.push_back(p.has_value() ? (long double)(int)*p : -1.0L);
    r.num.push_back((long double)(int)PhQ::ConsistentUnit<std::decay_t<decltype(Q::Unit())>>(PhQ::UnitSystem::FootPoundSecondRankine));
  }
  return r;
}
inline bool same(long double a, long double b) { return std::memcmp(&a, &b, 10) == 0 || (a != a && b != b); }
template <class Ad, class UV> void report(const char* compiler, const char* opt, const char* type, const Rec& before, UV nonstd) {
  Rec now = compute<Ad>(nonstd); std::string diff; int nd = 0;
  if (before.text.size() != now.text.size() || before.num.size() != now.num.size()) { diff = "shape"; nd = 1; }
  else { for (size_t i = 0; i < now.text.size(); i++) if (before.text[i] != now.text[i]) { if (nd++ < 3) diff += "text" + std::to_string(i) + ":[" + before.text[i] + "]vs[" + now.text[i] + "] "; }
         for (size_t i = 0; i < now.num.size(); i++) if (!same(before.num[i], now.num[i])) { if (nd++ < 3) diff += "num" + std::to_string(i) + " "; } }
  printf("{\"e\":\"PreMain\",\"compiler\":\"%s\",\"opt\":\"%s\",\"type\":\"%s\",\"num\":\"%s\",\"fields\":%zu,\"differ\":%d,\"detail\":\"%s\"}\n", compiler, opt, type, bat::NumName<typename Ad::T>::c, now.text.size() + now.num.size(), nd, bat::jesc(diff).c_str());
}
}  // namespace pm
