SPECIFICATION Spec
POSTCONDITION Accepted
CHECK_DEADLOCK FALSE
