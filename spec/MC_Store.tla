------------------------------- MODULE MC_Store -------------------------------
EXTENDS Store
AllCaps == {"add", "sub", "muln", "nmul", "divn", "ratio", "addeq", "subeq", "muleq", "diveq", "set", "mutable"}
UnitCaps == {"muln", "divn", "muleq", "diveq", "set"}       \* unit histories: scalings, mutators and the unit actions
AffineCaps == {"muln", "nmul", "divn", "muleq", "diveq", "set", "mutable"}      \* e.g. Position, Temperature: no Self + Self
P1 == << <<6>>, <<-4>>, <<12>> >>
P2 == << <<6, -4>>, <<3, 8>>, <<-12, 2>> >>
P3 == << <<6, -4, 12>>, <<3, 8, -2>>, <<-12, 2, 4>> >>
P6 == << <<6, -4, 12, 8, -2, 10>>, <<3, 8, -2, 5, 7, -9>>, <<-12, 2, 4, -6, 14, 16>> >>
P9 == << <<6, -4, 12, 8, -2, 10, 14, -16, 18>>, <<3, 8, -2, 5, 7, -9, 1, 4, -6>>, <<-12, 2, 4, -6, 14, 16, -8, 10, 20>> >>
NumsMC == {2, -3}
NumsSim == {2, -3, 4, -1}
=============================================================================
