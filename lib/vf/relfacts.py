"""K1 for the relation graph: facts (QDim, Rel with measured fingerprint, Twin, Pair, Def) validated by
TLC against spec/Trace_Relations.tla.  Shared by C03, C04, C05, C18."""
import json
import os
import sys

from . import common as C, unitsfacts as U, relations as R, fingerprint as F

sys.path.insert(0, C.HARNESS)
import qgen  # noqa: E402

CLASSES = {
    'C03': {'op_dims', 'mono_dims', 'linear_dims', 'components_dims', 'not_equivariant'},
    'C04': {'op_semantics', 'twin_mismatch', 'twin_value_differs', 'op_not_native'},
    'C05': {'not_inverse', 'round_trip'},
    'C18': {'definition_missing', 'definition_formula', 'definition_solved_form', 'tensor_definition', 'formula_value', 'tensor_definition_value',
            'theory_consistency', 'theory_uncovered'},
}
ROLE = {'IsobaricHeatCapacity': 1, 'SpecificIsobaricHeatCapacity': 1, 'IsochoricHeatCapacity': 2, 'SpecificIsochoricHeatCapacity': 2,
        'GasConstant': 3, 'SpecificGasConstant': 3, 'HeatCapacityRatio': 4}
TENSOR_DEFS = {   # relation name -> (numeric kind, exact-event definition key)
    'Strain(DisplacementGradient)': (1, 'strain_of_gradient'), 'DisplacementGradient.Strain()': (1, 'strain_of_gradient'),
    'StrainRate(VelocityGradient)': (1, 'strain_of_gradient'), 'VelocityGradient.StrainRate()': (1, 'strain_of_gradient'),
    'Strain(VolumetricThermalExpansionCoefficient,TemperatureDifference)': (2, 'volumetric_strain'),
    'VolumetricThermalExpansionCoefficient * TemperatureDifference': (2, 'volumetric_strain'),
    'TemperatureDifference * VolumetricThermalExpansionCoefficient': (2, 'volumetric_strain'),
    'Stress.VonMises()': (3, 'von_mises'),
    'Stress.Traction(Direction)': (4, 'traction'), 'Traction(Stress,Direction)': (4, 'traction'),
    'Stress(StaticPressure)': (5, 'isotropic_stress'), 'StaticPressure.Stress()': (5, 'isotropic_stress'),
    'Stress.PlanarTraction(PlanarDirection)': (6, 'planar_traction'), 'PlanarTraction(Stress,PlanarDirection)': (6, 'planar_traction'),
}
DEF_SIG = {   # definition key -> (kind, name of the relation in the graph)
    'dynamic_pressure': 'DynamicPressure(MassDensity,Speed)',
    'dynamic_kinematic_pressure': 'DynamicKinematicPressure(Speed)',
    'total_pressure': 'TotalPressure(StaticPressure,DynamicPressure)',
    'total_kinematic_pressure': 'TotalKinematicPressure(StaticKinematicPressure,DynamicKinematicPressure)',
    'sound_speed_bulk': 'SoundSpeed(IsentropicBulkModulus,MassDensity)',
    'sound_speed_pressure': 'SoundSpeed(HeatCapacityRatio,StaticPressure,MassDensity)',
    'sound_speed_temperature': 'SoundSpeed(HeatCapacityRatio,SpecificGasConstant,Temperature)',
    'mach_number': 'MachNumber(Speed,SoundSpeed)',
    'reynolds_dynamic': 'ReynoldsNumber(MassDensity,Speed,Length,DynamicViscosity)',
    'reynolds_kinematic': 'ReynoldsNumber(Speed,Length,KinematicViscosity)',
    'prandtl_diffusivities': 'PrandtlNumber(KinematicViscosity,ThermalDiffusivity)',
    'prandtl_conductivity': 'PrandtlNumber(SpecificIsobaricHeatCapacity,DynamicViscosity,ScalarThermalConductivity)',
    'heat_capacity_ratio': 'HeatCapacityRatio(IsobaricHeatCapacity,IsochoricHeatCapacity)',
    'specific_heat_ratio': 'HeatCapacityRatio(SpecificIsobaricHeatCapacity,SpecificIsochoricHeatCapacity)',
    'gas_constant': 'GasConstant(IsobaricHeatCapacity,IsochoricHeatCapacity)',
    'specific_gas_constant': 'SpecificGasConstant(SpecificIsobaricHeatCapacity,SpecificIsochoricHeatCapacity)',
    'thermal_diffusivity': 'ThermalDiffusivity(ScalarThermalConductivity,MassDensity,SpecificIsobaricHeatCapacity)',
    'kinematic_viscosity': 'KinematicViscosity(DynamicViscosity,MassDensity)',
    'period': 'Time(Frequency)',
    'frequency': 'Frequency(Time)',
    'period_member': 'Frequency.Period()',
    'frequency_member': 'Time.Frequency()',
    'linear_thermal_strain': 'ScalarStrain(LinearThermalExpansionCoefficient,TemperatureDifference)',
}


def components_class(ev, rels, fps, seed):
    """'other' relations that assemble a vector/tensor from scalar components: out == inputs, exactly."""
    import random
    rnd = random.Random(seed + 17)
    cand = [r for r in rels if fps[r['id']]['cls'] == 'other' and all(n == 1 for n in r['asz']) and r['rsz'] == len(r['args']) and r['rsz'] > 1]
    q, vals = [], []
    for r in cand:
        for _ in range(2):
            v = [float(rnd.randint(-9, 9) * 2 + 1) for _ in r['args']]
            flat = []
            for x in v:
                flat += [x] + [0.0] * 8
            q.append((r['id'], 'd', flat))
            vals.append(v)
    res = ev.batch(q) if q else []
    for i, r in enumerate(cand):
        if res[2 * i] == vals[2 * i] and res[2 * i + 1] == vals[2 * i + 1]:
            fps[r['id']]['cls'] = 'components'


def tensor_def_events(ev, rels, seed):
    import random
    rnd = random.Random(seed + 5)
    byname = {r['name']: r for r in rels}
    q, meta = [], []
    for nm, (kind, key) in TENSOR_DEFS.items():
        if nm not in byname:
            continue
        r = byname[nm]
        for num in 'fdl':
            for rep in range(3):
                if key == 'strain_of_gradient':
                    a = [2 * rnd.randint(-9, 9) for _ in range(9)]
                    b = []
                elif key == 'volumetric_strain':
                    a = [3 * rnd.randint(1, 9)]
                    b = [rnd.choice([-7, -5, -2, 2, 4, 5, 8])]
                elif key == 'von_mises':
                    a = [rnd.randint(-6, 6) for _ in range(6)]
                    b = []
                elif key in ('traction', 'planar_traction'):
                    a = rnd.sample(range(1, 10), 6)
                    a = [x * rnd.choice((1, -1)) for x in a]
                    n_ = 3 if key == 'traction' else 2
                    ax = rnd.randrange(n_)
                    b = [(rnd.choice((1, -1)) if i == ax else 0) for i in range(n_)]
                else:
                    a = [rnd.randint(-9, 9) or 4]
                    b = []
                flat = [float(x) for x in a] + [0.0] * (9 - len(a)) + [float(x) for x in b]
                q.append((r['id'], num, flat))
                meta.append((r, key, num, a, b))
    res = ev.batch(q) if q else []
    out = []
    for (r, key, num, a, b), o in zip(meta, res):
        if key == 'von_mises':
            v = o[0] * o[0] * 2 if o else float('nan')
            exact = o is not None and abs(v - round(v)) <= 1e-4 * max(1.0, abs(v)) * (1e3 if num == 'f' else 1)
            oi = [int(round(v))] if exact else []
        else:
            exact = o is not None and all(x == int(x) for x in o)
            oi = [int(x) for x in o] if exact else []
        out.append({'e': 'TensorDef', 'def': key, 'rel': r['id'], 'num': num, 'a': a, 'b': b, 'out': oi, 'exact': exact})
    return out


def frac_hex(fr, bits=64):
    """C hexadecimal floating literal of the Fraction rounded (half-even) to `bits` significant bits"""
    from fractions import Fraction as Fr
    if fr == 0:
        return '0x0p+0'
    sign, a = ('-' if fr < 0 else ''), abs(fr)
    e = a.numerator.bit_length() - a.denominator.bit_length() - bits
    while a / Fr(2) ** e >= 2 ** bits:
        e += 1
    while a / Fr(2) ** e < 2 ** (bits - 1):
        e -= 1
    x = a / Fr(2) ** e
    m = x.numerator // x.denominator
    rem = x - m
    if rem > Fr(1, 2) or (rem == Fr(1, 2) and m % 2):
        m += 1
    return f'{sign}0x{m:x}p{e:+d}'


def hex_frac(s):
    """exact value of a %La string -> Fraction, or None for inf/nan"""
    from fractions import Fraction as Fr
    s = s.strip().lower()
    if 'inf' in s or 'nan' in s:
        return None
    neg = s.startswith('-')
    s = s.lstrip('+-')[2:]
    mant, _, ex = s.partition('p')
    ip, _, fp = mant.partition('.')
    v = Fr(int((ip + fp) or '0', 16), 16 ** len(fp)) * Fr(2) ** int(ex or 0)
    return -v if neg else v


def theory_events(ev, rels):
    """C18 derived forms (spec/Theory.tla): TLC checks that the theory states are models of all definitions and serialises them
    (MC_Theory); every relation among pairwise distinct variables of the theory is evaluated at every state."""
    from fractions import Fraction as Fr
    import math
    wd = C.work_dir('theory')
    outp = os.path.join(wd, 'theory_states.json')
    res = C.run_tlc('MC_Theory', 'MC_Theory.cfg', env={'OUT': outp}, workers=1, timeout=300)
    if not res.ok or not os.path.exists(outp):
        raise C.ToolError('MC_Theory: the theory states are not models of the definitions\n' + res.out[-1500:])
    th = json.load(open(outp))
    tvars = set(th['vars'])
    cand = [r for r in rels if r['ret'] in tvars and all(a in tvars for a in r['args'])
            and len(set([r['ret']] + r['args'])) == len(r['args']) + 1]
    q, meta = [], []
    for k, st in enumerate(th['states']):
        for r in cand:
            for num in 'fdl':
                flat = []
                for a in r['args']:
                    flat += [frac_hex(Fr(*st[a]))] + ['0x0p+0'] * 8
                while flat and flat[-1] == '0x0p+0':
                    flat.pop()
                q.append((r['id'], num, flat))
                meta.append((r, k + 1, num, [st[a] for a in r['args']]))
    outs = ev.batch(q, raw=True) if q else []
    digits = {'f': 24, 'd': 53, 'l': 64}
    evs = []
    for (r, k, num, args), o in zip(meta, outs):
        v = hex_frac(o[0]) if o else None
        e = {'e': 'Theory', 'rel': r['id'], 'state': k, 'num': num, 'args': args, 'out': [0, 1], 'ulps': 1000000, 'finite': v is not None}
        if v is not None:
            c = v.limit_denominator(4096)
            if abs(c.numerator) <= 10 ** 6:
                e['out'] = [c.numerator, c.denominator]
                if c == 0:
                    e['ulps'] = 0 if v == 0 else 1000000
                else:
                    ulp = Fr(2) ** (math.floor(math.log2(abs(c))) + 1 - digits[num])
                    e['ulps'] = min(1000000, math.ceil(abs(v - c) / ulp))
        evs.append(e)
    return evs, res, len(cand)


def derive_pairs(rels):
    """Inverse pairs by signature (constructors/members) and by signature + duality (operators)."""
    bysig = {}
    for r in rels:
        bysig.setdefault((r['ret'], tuple(sorted(r['args']))), []).append(r)
    pairs = []
    for f in rels:
        n = len(f['args'])
        if n not in (1, 2) or 'Number' in f['args'] or f['ret'] == 'Number':
            continue
        if f['ret'] in qgen.NORMALISED or any(a in qgen.NORMALISED for a in f['args']):
            continue
        C_ = f['ret']
        for posA in range(n):
            A = f['args'][posA]
            B = f['args'][1 - posA] if n == 2 else None
            if A == C_ or (n == 2 and (B == C_ or B == A)):
                continue
            if n == 1 and f['asz'][0] > f['rsz']:
                continue          # projection 3-D -> planar is not lossless
            for g in bysig.get((A, tuple(sorted([C_] + ([B] if n == 2 else [])))), []):
                if g['id'] == f['id']:
                    continue
                posC = g['args'].index(C_)
                if f['kind'] == 'op' and g['kind'] == 'op':
                    if not dual(f['op'], posA + 1, g['op'], posC + 1):
                        continue
                elif f['kind'] == 'op' or g['kind'] == 'op':
                    continue      # operator <-> constructor: covered through the twin check
                if f['kind'] == 'member' and f['op'] in ('x', 'y', 'z', 'xx', 'xy', 'xz', 'yx', 'yy', 'yz', 'zx', 'zy', 'zz', 'Magnitude'):
                    continue
                if g['kind'] == 'member' and g['op'] in ('x', 'y', 'z', 'xx', 'xy', 'xz', 'yx', 'yy', 'yz', 'zx', 'zy', 'zz', 'Magnitude'):
                    continue
                pairs.append({'e': 'Pair', 'fwd': f['id'], 'back': g['id'], 'posA': posA + 1, 'posC': posC + 1})
    return pairs


def dual(opF, posA, opG, posC):
    if opF == '*':
        return opG == '/' and posC == 1
    if opF == '/':
        return opG == '*' if posA == 1 else (opG == '/' and posC == 2)
    if opF == '+':
        return opG == '-' and posC == 1
    if opF == '-':
        return opG == '+' if posA == 1 else (opG == '-' and posC == 2)
    return False


def derive_twins(rels):
    ops = {}
    for r in rels:
        if r['kind'] == 'op' and 'Number' not in r['args'] and r['ret'] != 'Number':
            ops.setdefault((r['ret'], tuple(sorted(r['args']))), []).append(r)
    tw, ambiguous = [], []
    for c in rels:
        if c['kind'] != 'ctor' or len(c['args']) != 2:
            continue
        cands = ops.get((c['ret'], tuple(sorted(c['args']))), [])
        # same multiset of operand types; with A == B two operators (A*A, A/A) cannot both return C
        by_order = {}
        for o in cands:
            by_order.setdefault(tuple(o['args']), []).append(o)
        for order, os_ in by_order.items():
            if len(os_) != 1:
                ambiguous.append(c['name'])
                continue
            o = os_[0]
            perm = 0 if list(order) == c['args'] else 1
            tw.append({'e': 'Twin', 'op': o['id'], 'ctor': c['id'], 'perm': perm})
    return tw, ambiguous


def numeric_layer(exe, rels, fps, qs, stddim, twins, pairs, wd, n):
    """Layer B: native runs of the evaluator in float/double/long double -> abstract events."""
    import concurrent.futures as cf

    def dims_of(t):
        if t == 'Number' or t in qgen.RAWTYPES:
            return [0] * 7
        u = qs[t]['unit']
        return stddim[u] if u else [0] * 7
    byid = {r['id']: r for r in rels}

    def odd(rid):
        fp = fps[rid]
        return 1 if (fp['cls'] not in ('mono', 'linear', 'components') or any(d % 2 for d in fp['deg2'])) else 0
    with open(os.path.join(wd, 'equiv.txt'), 'w') as f:
        for r in rels:
            parts = [str(r['id']), str(len(r['args']))]
            for a in r['args']:
                parts += [str(x) for x in dims_of(a)] + ['1' if a in qgen.NORMALISED else '0']
            parts += [str(x) for x in dims_of(r['ret'])] + [str(odd(r['id']))]
            f.write(' '.join(parts) + '\n')
    with open(os.path.join(wd, 'twin.txt'), 'w') as f:
        for t in twins:
            f.write(f"{t['op']} {t['ctor']} {t['perm']}\n")
    with open(os.path.join(wd, 'inverse.txt'), 'w') as f:
        for p in pairs:
            fw, bk = byid[p['fwd']], byid[p['back']]
            sq = 1 if (odd(p['fwd']) or odd(p['back'])) else 0
            lin = 1 if (fps[p['fwd']]['cls'] == 'linear' or fps[p['back']]['cls'] == 'linear') else 0
            roles = [0, 0]
            if fps[p['fwd']]['cls'] == 'other' or fps[p['back']]['cls'] == 'other':
                roles = [ROLE.get(a, 0) for a in (fw['args'] + ['x'])[:2]]
            role_c = ROLE.get(fw['ret'], 0) if (roles[0] or roles[1]) else 0
            f.write(f"{p['fwd']} {p['back']} {len(fw['args'])} {p['posA'] - 1} {p['posC'] - 1} {sq} {lin} {roles[0]} {roles[1]} {role_c}\n")
    from fractions import Fraction as Fr
    import scan as _scan
    with open(os.path.join(wd, 'mono.txt'), 'w') as f:
        for r in rels:
            fp = fps[r['id']]
            if fp['cls'] == 'mono' and fp['c2'] is not None and all(a not in qgen.NORMALISED for a in r['args']):
                q, k = _scan.bag_value(fp['c2'])
                if k == 0:
                    f.write(f"{r['id']} {len(r['args'])} {q.numerator} {q.denominator} {1 if fp['neg'] else 0} " + ' '.join(str(d) for d in fp['deg2']) + '\n')
    byname = {r['name']: r for r in rels}
    with open(os.path.join(wd, 'tdef.txt'), 'w') as f:
        for nm, kind in TENSOR_DEFS.items():
            if nm in byname:
                f.write(f"{byname[nm]['id']} {kind[0]}\n")
    with open(os.path.join(wd, 'opnative.txt'), 'w') as f:
        for r in rels:
            if r['kind'] in ('op', 'cop') and not any(a in qgen.NORMALISED for a in r['args']) and r['rsz'] == max(r['asz']):
                f.write(f"{r['id']} {'+-*/'.index(r['op'][0])}\n")
    jobs = [('opnative', 'opnative.txt', n * 5), ('equiv', 'equiv.txt', n), ('twin', 'twin.txt', n * 5), ('inverse', 'inverse.txt', n * 5), ('mono', 'mono.txt', n * 5), ('tdef', 'tdef.txt', n * 10)]

    def one(j):
        mode, fn, k = j
        return C.run([exe, mode, os.path.join(wd, fn), str(C.SEED), str(k)], timeout=1500).stdout.decode()
    with cf.ThreadPoolExecutor(6) as ex:
        outs = list(ex.map(one, jobs))
    evs = []
    for o in outs:
        for ln in o.splitlines():
            e = json.loads(ln)
            if e['e'] == 'Twin':
                e['e'] = 'TwinNum'
            evs.append(e)
    return evs


def run(n=40):
    uout = U.run()
    if not uout['accepted']:
        raise C.ToolError('unit facts rejected; relation dims unavailable')
    exe, g, rels, excluded = R.build()
    qs = g['qs']
    ev = R.Evaluator(exe)
    try:
        fps = F.fingerprints(ev, rels, qs, C.SEED)
        components_class(ev, rels, fps, C.SEED)
        tdefs = tensor_def_events(ev, rels, C.SEED)
        thevs, thres, thn = theory_events(ev, rels)
    finally:
        ev.close()
    stddim = {u['type']: u['dim'] for u in uout['unit_table'] if u['std']}
    facts = []
    for name, q in sorted(qs.items()):
        d = stddim.get(q['unit']) if q['unit'] else [0] * 7
        if d is None:
            continue
        facts.append({'e': 'QDim', 'name': name, 'dims': d, 'ncomp': qgen.NCOMP[q['shape']]})
    for r in rels:
        fp = fps[r['id']]
        facts.append({'e': 'Rel', 'id': r['id'], 'kind': r['kind'], 'op': r['op'], 'name': r['name'], 'args': r['args'], 'ret': r['ret'],
                      'cls': fp['cls'], 'norm': [a in qgen.NORMALISED for a in r['args']], 'deg2': fp['deg2'], 'has_c': fp['c2'] is not None, 'c2': fp['c2'] or {}, 'neg': fp['neg'],
                      'coef': fp['coef']})
    twins, amb = derive_twins(rels)
    pairs = derive_pairs(rels)
    byname = {r['name']: r for r in rels}
    defs = [{'e': 'Def', 'def': k, 'rel': byname[n]['id'] if n in byname else -1} for k, n in sorted(DEF_SIG.items())]
    # every other relation among exactly the quantity types of a named definition (its operator twin, the members and constructors
    # that solve it for another variable)
    solved = []
    for dkey, dname in sorted(DEF_SIG.items()):
        if dname not in byname or dkey.endswith('_member'):
            continue
        d = byname[dname]
        tset = sorted([d['ret']] + d['args'])
        if len(set(tset)) != len(tset):
            continue
        for r in rels:
            if r['id'] != d['id'] and sorted([r['ret']] + r['args']) == tset and 'Number' not in tset:
                solved.append({'e': 'Solved', 'def': dkey, 'rel': r['id']})
    facts += twins + pairs + defs + tdefs + solved + thevs
    wd = C.work_dir('rel')
    facts += numeric_layer(exe, rels, fps, qs, stddim, twins, pairs, wd, n)
    fp_ = C.write_ndjson(os.path.join(wd, 'relfacts.ndjson'), facts)
    outp = os.path.join(wd, 'rel_bad.json')
    res = C.run_tlc('Trace_Relations', 'Trace_Relations.cfg', env={'FACTS': fp_, 'OUT': outp}, workers=1, timeout=1200)
    ok = res.ok and os.path.exists(outp)
    return {'facts': facts, 'tlc': res, 'accepted': ok, 'result': json.load(open(outp)) if ok else None, 'rels': rels,
            'fps': fps, 'twins': twins, 'pairs': pairs, 'defs': defs, 'graph': g, 'exe': exe, 'excluded': excluded,
            'ambiguous_twins': amb, 'workdir': wd, 'uout': uout, 'theory_tlc': thres, 'theory_relations': thn}


def report(chk, pid, out):
    res = out['tlc']
    chk.add_tlc('Trace_Relations(K1 relation graph)', res, traces=1, events=len(out['facts']))
    if not out['accepted']:
        k = res.distinct - 1
        e = out['facts'][k] if 0 <= k < len(out['facts']) else None
        chk.violation(f'rel_trace_rejected:{(e or {}).get("e")}:{(e or {}).get("name", (e or {}).get("def"))}',
                      f'relation facts rejected by Trace_Relations at event {k}: {json.dumps(e)[:300]}', e)
        return
    for b in out['result']['bad']:
        if b['cls'].startswith('inconclusive'):
            if (pid == 'C03' and b['cls'] == 'inconclusive_fingerprint') or (pid == 'C05' and b['cls'] == 'inconclusive_pair'):
                chk.note_inconclusive(f"{b['cls']}:{b['key']}")
            continue
        if b['cls'] in CLASSES[pid]:
            chk.violation(f"{b['cls']}:{b['key']}", f"{b['cls']} {b['key']} ({b['detail']})", b)
