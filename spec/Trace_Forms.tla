------------------------------- MODULE Trace_Forms -------------------------------
(* C02: abstract events of the conversion entry points.  Every form - free functions on scalars,  *)
(* std::array, std::vector (lengths 0, 1, 7), planar vectors, vectors, symmetric dyads, dyads, in  *)
(* place, copying and compile-time; quantity construction in a unit, Value(unit),                  *)
(* StaticValue<unit>, Create<unit>, Print/JSON/XML/YAML(unit) parsed back - is compared component  *)
(* by component with the plain scalar Convert on inputs with distinct components per slot.          *)
(* Specification: each entry point is the same abstract operator ConvertSeq applied slot by slot,   *)
(* exactly once; copying forms leave their argument unchanged; reading back in the construction     *)
(* unit returns the original up to rounding; a unit converted to itself is the identity (bitwise    *)
(* where the library performs no arithmetic: the standard unit).                                    *)
EXTENDS Integers, Sequences, FiniteSets, Json, IOUtils, TLC
CONSTANTS BudgetForm,      \* ulps allowed between an entry point and the scalar conversion of the same slot
          BudgetReadBack   \* ulps (of the larger of value and SI image) allowed for construct-in-u / read-in-u
Events == ndJsonDeserialize(IOEnv.TRACE)
Units  == JsonDeserialize(IOEnv.UNITS)      \* unit type |-> names
QUnit  == JsonDeserialize(IOEnv.QUNIT)      \* quantity type |-> unit type
FreeForms == {"scalar_inplace", "array", "array_inplace", "vector", "vector_inplace", "PlanarVector", "PlanarVector_inplace", "Vector",
              "Vector_inplace", "SymmetricDyad", "SymmetricDyad_inplace", "Dyad", "Dyad_inplace", "static_scalar", "static_array",
              "static_PlanarVector", "static_Vector", "static_SymmetricDyad", "static_Dyad", "identity"}
AccessorForms == {"construct_in_unit", "Value(unit)", "StaticValue<unit>", "Create<unit>", "Create<unit>(array)", "Create<unit>(components)", "Print(unit)",
                  "JSON(unit)", "XML(unit)", "YAML(unit)", "read_back"}
VARIABLES l, bad, forms, qseen
vars == <<l, bad, forms, qseen>>
Init == l = 1 /\ bad = <<>> /\ forms = {} /\ qseen = {}
SeqSet(s) == {s[i] : i \in 1..Len(s)}
UnitOK(t, u) == u = "std" \/ u \in SeqSet(Units[t])
TForm == LET r == Events[l]
             ut == IF r.type \in DOMAIN QUnit THEN QUnit[r.type] ELSE r.type
         IN
  /\ l <= Len(Events) /\ r.e = "Form" /\ l' = l + 1
  /\ r.form \in FreeForms \cup AccessorForms /\ r.num \in {"f", "d", "l"}
  /\ (r.form \in FreeForms => r.type \in DOMAIN Units) /\ (r.form \in AccessorForms => r.type \in DOMAIN QUnit)
  /\ UnitOK(ut, r.from) /\ UnitOK(ut, r.to)
  /\ LET budget == IF r.form \in {"read_back", "identity"} THEN BudgetReadBack ELSE BudgetForm
         checks == << <<r.ulps <= budget, "form_disagrees">>, <<r.arg_modified = 0, "argument_modified">>,
                      <<r.ident_bad = 0, "form_malformed">> >>
         failed == SelectSeq(checks, LAMBDA c : ~c[1])
     IN bad' = IF Len(bad) >= 400 THEN bad ELSE bad \o [i \in 1..Len(failed) |-> [cls |-> failed[i][2], type |-> r.type, form |-> r.form, from |-> r.from,
                                                   to |-> r.to, num |-> r.num, ulps |-> r.ulps]]
  /\ forms' = forms \cup {r.form}
  /\ qseen' = IF r.form \in AccessorForms THEN qseen \cup {<<r.type, r.num>>} ELSE qseen
TFinish == /\ l = Len(Events) + 1 /\ l' = l + 1
           /\ JsonSerialize(IOEnv.OUT, [bad |-> bad, forms_missing |-> Cardinality((FreeForms \cup AccessorForms) \ forms),
                                         quantity_x_num |-> Cardinality(qseen), quantity_types |-> Cardinality(DOMAIN QUnit)])
           /\ UNCHANGED <<bad, forms, qseen>>
Next == TForm \/ TFinish
Spec == Init /\ [][Next]_vars
Accepted == TLCGet("stats").diameter - 2 = Len(Events)
=============================================================================
