// C06: printing / ordering / hash of PhQ::Dimensions over an exponent box.
// usage: dims_box <R> <seed> <sample>   -> NDJSON events on stdout
//  DimPrint {d, ok, one, toks:[[idx,exp,form]]}   form: 0 bare, 1 caret, 2 paren
//  DimCmp   {a, b, lt, gt, le, ge, eq, ne, heq}
//  DimSummary {box, prints, cmps, ref_mismatch_print, ref_mismatch_cmp, hash_sensitive:[7]}
// Every tuple of the box is printed and compared natively against the reference interpreter (a C++
// transcription of Dims.tla); every disagreement and a seeded sample are emitted for TLC.
#include <array>
#include <cstdint>
#include <cstdio>
#include <cstdlib>
#include <functional>
#include <random>
#include <sstream>
#include <string>
#include <vector>

#include "PhQ/Dimensions.hpp"
using namespace PhQ;
typedef std::array<int, 7> D7;

static Dimensions mk(const D7& d) {
  return Dimensions{Dimension::Time{(int8_t)d[0]}, Dimension::Length{(int8_t)d[1]}, Dimension::Mass{(int8_t)d[2]},
                    Dimension::ElectricCurrent{(int8_t)d[3]}, Dimension::Temperature{(int8_t)d[4]},
                    Dimension::SubstanceAmount{(int8_t)d[5]}, Dimension::LuminousIntensity{(int8_t)d[6]}};
}
struct Tok { int idx, exp, form; };
// full-match parse of the printed form; false if any byte is not understood
static bool parse(const std::string& s, std::vector<Tok>& out, bool& one) {
  out.clear(); one = false;
  if (s == "1") { one = true; return true; }
  size_t p = 0;
  static const char* L[7] = {"T", "L", "M", "I", "\xCE\x98", "N", "J"};
  bool first = true;
  while (p < s.size()) {
    if (!first) { if (s.compare(p, 2, "\xC2\xB7") != 0) return false; p += 2; }
    first = false;
    int idx = -1;
    for (int i = 0; i < 7; i++) { size_t n = std::string(L[i]).size(); if (s.compare(p, n, L[i]) == 0) { idx = i; p += n; break; } }
    if (idx < 0) return false;
    Tok t{idx + 1, 1, 0};
    if (p < s.size() && s[p] == '^') {
      p++;
      bool paren = p < s.size() && s[p] == '(';
      if (paren) p++;
      size_t q = p; if (q < s.size() && s[q] == '-') q++;
      size_t d0 = q; while (q < s.size() && isdigit((unsigned char)s[q])) q++;
      if (q == d0) return false;
      t.exp = atoi(s.substr(p, q - p).c_str()); p = q;
      if (paren) { if (p >= s.size() || s[p] != ')') return false; p++; }
      t.form = paren ? 2 : 1;
    }
    out.push_back(t);
  }
  return !out.empty();
}
// reference interpreter (Dims.tla transcribed)
static void ref_tokens(const D7& d, std::vector<Tok>& out) {
  out.clear();
  for (int i = 0; i < 7; i++) if (d[i] != 0) out.push_back(Tok{i + 1, d[i], d[i] == 1 ? 0 : (d[i] > 1 ? 1 : 2)});
}
static bool ref_less(const D7& a, const D7& b) { for (int i = 0; i < 7; i++) if (a[i] != b[i]) return a[i] < b[i]; return false; }

static void pd(const D7& d) { printf("[%d,%d,%d,%d,%d,%d,%d]", d[0], d[1], d[2], d[3], d[4], d[5], d[6]); }
static long n_print = 0, n_cmp = 0, mm_print = 0, mm_cmp = 0, emitted = 0;

static void do_print(const D7& d, bool sample) {
  Dimensions x = mk(d);
  std::string s = x.Print();
  std::ostringstream os; os << x;
  std::vector<Tok> got, want; bool one = false;
  bool ok = parse(s, got, one) && os.str() == s;
  ref_tokens(d, want);
  bool same = ok && ((one && want.empty()) || (!one && got.size() == want.size()));
  if (same && !one) for (size_t i = 0; i < got.size(); i++) same &= got[i].idx == want[i].idx && got[i].exp == want[i].exp && got[i].form == want[i].form;
  n_print++;
  if (!same) mm_print++;
  if ((!same && mm_print <= 200) || sample) {
    printf("{\"e\":\"DimPrint\",\"d\":"); pd(d); printf(",\"ok\":%s,\"one\":%s,\"toks\":[", ok ? "true" : "false", one ? "true" : "false");
    for (size_t i = 0; i < got.size(); i++) printf("%s[%d,%d,%d]", i ? "," : "", got[i].idx, got[i].exp, got[i].form);
    printf("]}\n"); emitted++;
  }
}
// JSON {"label":n,...} / YAML {label:n,...} / XML <label>n</label>...  ->  (label index, exponent) pairs; false if any byte is not understood
static const char* LAB[7] = {"time", "length", "mass", "electric_current", "temperature", "substance_amount", "luminous_intensity"};
static bool parse_serial(const std::string& s, int form, std::vector<Tok>& out) {
  out.clear(); size_t p = 0, end = s.size();
  if (form != 1) { if (s.size() < 2 || s[0] != '{' || s[s.size() - 1] != '}') return false; p = 1; end = s.size() - 1; }
  bool first = true;
  while (p < end) {
    if (form != 1 && !first) { if (s[p] != ',') return false; p++; }
    first = false;
    if (form == 0) { if (s[p] != '"') return false; p++; } else if (form == 1) { if (s[p] != '<') return false; p++; }
    int idx = -1; for (int i = 0; i < 7; i++) { size_t n = std::string(LAB[i]).size(); if (s.compare(p, n, LAB[i]) == 0 && p + n < s.size() && !isalpha((unsigned char)s[p + n]) && s[p + n] != '_') { idx = i; p += n; break; } }
    if (idx < 0) return false;
    if (form == 0) { if (s.compare(p, 2, "\":") != 0) return false; p += 2; } else if (form == 1) { if (s[p] != '>') return false; p++; } else { if (s[p] != ':') return false; p++; }
    size_t q = p; if (q < end && s[q] == '-') q++; size_t d0 = q; while (q < end && isdigit((unsigned char)s[q])) q++; if (q == d0) return false;
    int e = atoi(s.substr(p, q - p).c_str()); p = q;
    if (form == 1) { std::string close = std::string("</") + LAB[idx] + ">"; if (s.compare(p, close.size(), close) != 0) return false; p += close.size(); }
    out.push_back(Tok{idx + 1, e, 0});
  }
  return p == end;
}
static long n_serial = 0;
static void do_serial(const D7& d, bool sample) {
  Dimensions x = mk(d); std::string texts[3] = {x.JSON(), x.XML(), x.YAML()}; static const char* FN[3] = {"JSON", "XML", "YAML"};
  for (int f = 0; f < 3; f++) { std::vector<Tok> got, want; bool ok = parse_serial(texts[f], f, got); ref_tokens(d, want); n_serial++;
    bool same = ok && got.size() == want.size(); if (same) for (size_t i = 0; i < got.size(); i++) same &= got[i].idx == want[i].idx && got[i].exp == want[i].exp;
    if ((!same && emitted < 100000) || sample) { printf("{\"e\":\"DimSerial\",\"form\":\"%s\",\"d\":", FN[f]); pd(d); printf(",\"ok\":%s,\"pairs\":[", ok ? "true" : "false");
      for (size_t i = 0; i < got.size(); i++) printf("%s[%d,%d]", i ? "," : "", got[i].idx, got[i].exp); printf("]}\n"); emitted++; } }
}
static void do_cmp(const D7& a, const D7& b, bool sample) {
  Dimensions x = mk(a), y = mk(b);
  int lt = x < y, gt = x > y, le = x <= y, ge = x >= y, eq = x == y, ne = x != y;
  int heq = std::hash<Dimensions>()(x) == std::hash<Dimensions>()(y);
  bool rl = ref_less(a, b), rg = ref_less(b, a), re = a == b;
  bool same = lt == rl && gt == rg && le == !rg && ge == !rl && eq == re && ne == !re && (!re || heq);
  n_cmp++;
  if (!same) mm_cmp++;
  if ((!same && mm_cmp <= 200) || sample) {
    printf("{\"e\":\"DimCmp\",\"a\":"); pd(a); printf(",\"b\":"); pd(b);
    printf(",\"lt\":%d,\"gt\":%d,\"le\":%d,\"ge\":%d,\"eq\":%d,\"ne\":%d,\"heq\":%d}\n", lt, gt, le, ge, eq, ne, heq); emitted++;
  }
}
int main(int argc, char** argv) {
  int R = argc > 1 ? atoi(argv[1]) : 2;
  uint64_t seed = argc > 2 ? strtoull(argv[2], 0, 10) : 1;
  long sample = argc > 3 ? atol(argv[3]) : 20000;
  std::mt19937_64 g(seed);
  long W = 2 * R + 1, total = 1; for (int i = 0; i < 7; i++) total *= W;
  double pr = (double)sample / (double)(total * 8);
  std::uniform_real_distribution<double> U(0, 1);
  int sens[7] = {0, 0, 0, 0, 0, 0, 0};
  for (long k = 0; k < total; k++) {
    D7 d; long r = k; for (int i = 6; i >= 0; i--) { d[i] = (int)(r % W) - R; r /= W; }
    do_print(d, U(g) < pr * 4);
    { bool allzero = true; for (int v : d) allzero &= v == 0; do_serial(d, allzero || U(g) < pr * 2); }
    // tie-forcing partners: equal leading prefix of every length, differing at position i by +-1 (and a random tail)
    do_cmp(d, d, U(g) < pr);
    for (int i = 0; i < 7; i++) {
      D7 b = d; b[i] += (g() & 1) ? 1 : -1;
      for (int j = i + 1; j < 7; j++) if (g() & 1) b[j] = (int)(g() % W) - R;
      do_cmp(d, b, U(g) < pr);
      D7 c = d; c[i] += 1;   // differs only at i: does the hash see component i ?
      if (std::hash<Dimensions>()(mk(d)) != std::hash<Dimensions>()(mk(c))) sens[i] = 1;
    }
  }
  // extremes of the int8 exponent range
  const int ext[] = {-128, -100, -10, -9, 9, 10, 99, 100, 127};
  for (int e : ext) for (int i = 0; i < 7; i++) { D7 d{0, 0, 0, 0, 0, 0, 0}; d[i] = e; do_print(d, true); do_serial(d, true); D7 z{0, 0, 0, 0, 0, 0, 0}; do_cmp(d, z, true); do_cmp(z, d, true); }
  // default construction is the dimensionless set; the seven base-dimension classes compare, hash, print and stream as their exponent
  { D7 z{0, 0, 0, 0, 0, 0, 0}; Dimensions d0; Dimensions dz = mk(z); bool def_ok = d0 == dz && !(d0 != dz) && d0.Print() == dz.Print() && std::hash<Dimensions>()(d0) == std::hash<Dimensions>()(dz);
    long bad = 0, cnt = 0;
    auto base = [&](auto tag) { using B = decltype(tag); B def; if (def.Value() != 0) bad++;
      for (int x = -3; x <= 3; x++) for (int y = -3; y <= 3; y++) { B a{(int8_t)x}, b{(int8_t)y}; cnt++;
        if ((a == b) != (x == y) || (a != b) != (x != y) || (a < b) != (x < y) || (a > b) != (x > y) || (a <= b) != (x <= y) || (a >= b) != (x >= y)) bad++;
        if (x == y && std::hash<B>()(a) != std::hash<B>()(b)) bad++; std::ostringstream os; os << a; if (os.str() != a.Print()) bad++; if (a.Value() != x) bad++; } };
    base(Dimension::Time{}); base(Dimension::Length{}); base(Dimension::Mass{}); base(Dimension::ElectricCurrent{}); base(Dimension::Temperature{}); base(Dimension::SubstanceAmount{}); base(Dimension::LuminousIntensity{});
    printf("{\"e\":\"DimBase\",\"default_is_dimensionless\":%d,\"pairs\":%ld,\"bad\":%ld}\n", (int)def_ok, cnt, bad); }
  printf("{\"e\":\"DimSummary\",\"box\":%d,\"prints\":%ld,\"cmps\":%ld,\"ref_mismatch_print\":%ld,\"ref_mismatch_cmp\":%ld,\"emitted\":%ld,\"serials\":%ld,\"hash_sensitive\":[%d,%d,%d,%d,%d,%d,%d]}\n",
         R, n_print, n_cmp, mm_print, mm_cmp, emitted, n_serial, sens[0], sens[1], sens[2], sens[3], sens[4], sens[5], sens[6]);
  return 0;
}
