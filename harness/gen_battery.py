"""Generates the per-type battery (K2 replay, layout, casts, comparisons) for every quantity type and the
four raw shapes, three numeric types."""
import qgen

NUMS = [('float', 'f'), ('double', 'd'), ('long double', 'l')]


def sources(qs, nparts=16, unitpick=None):
    unitpick = unitpick or {}
    names = sorted(qs) + qgen.RAWTYPES
    parts = []
    for k in range(nparts):
        mine = names[k::nparts]
        if not mine:
            continue
        out = [qgen.includes(qs), '#include "battery.hpp"', 'using namespace PhQ;']
        for n in mine:
            shape = qgen.shape_of(n, qs)
            ut = qs[n]['unit'] if n in qs else None
            extra = ''
            if ut and ut in unitpick:
                extra = ' static constexpr long factor = %d; static constexpr Unit::%s unit = Unit::%s::%s;' % (unitpick[ut][1], ut, ut, unitpick[ut][0])
            out.append('template<class TT> struct Ad_%s { using T = TT; using Q = %s<TT>; static constexpr int N = %d; static Q make(const T* x){ return %s; }%s };'
                       % (n, n, qgen.NCOMP[shape], qgen.mk(n, qs, 'x', '0'), extra))
        out.append('void bpart_%d(const std::string& mode, const bat::Suite& s, uint64_t seed, int n){' % k)
        for n in mine:
            norm = 'true' if n in qgen.NORMALISED else 'false'
            if n not in qgen.NORMALISED:
                out.append('  if(mode=="replay"){ %s }' % ' '.join('bat::replay_all<Ad_%s<%s>>("%s", s);' % (n, T, n) for T, _ in NUMS))
                out.append('  if(mode=="arith"){ %s }' % ' '.join('bat::arith<Ad_%s<%s>>("%s", seed, n);' % (n, T, n) for T, _ in NUMS))
                out.append('  if(mode=="mutators"){ %s }' % ' '.join('bat::mutators<Ad_%s<%s>>("%s", seed, n);' % (n, T, n) for T, _ in NUMS))
                out.append('  if(mode=="mathfn"){ %s }' % ' '.join('bat::mathfn<Ad_%s<%s>>("%s", seed, n);' % (n, T, n) for T, _ in NUMS))
                out.append('  if(mode=="compare"){ %s }' % ' '.join('bat::compare_grid<Ad_%s<%s>>("%s", seed, n, 40, true);' % (n, T, n) for T, _ in NUMS))
            if n in qgen.NORMALISED:
                out.append('  if(mode=="compare"){ %s }' % ' '.join('bat::compare_normalised<Ad_%s<%s>>("%s", seed, n);' % (n, T, n) for T, _ in NUMS))
            out.append('  if(mode=="composite"){ %s }' % ' '.join('bat::composite<Ad_%s<%s>>("%s");' % (n, T, n) for T, _ in NUMS))
            out.append('  if(mode=="layout"){ %s }' % ' '.join('bat::layout<Ad_%s<%s>>("%s");' % (n, T, n) for T, _ in NUMS))
            casts = ' '.join('bat::cast_pair<Ad_%s<%s>, Ad_%s<%s>>("%s", seed, n, %s);' % (n, A, n, B, n, norm)
                             for A, _ in NUMS for B, _ in NUMS if A != B)
            out.append('  if(mode=="cast"){ %s }' % casts)
        out.append('}')
        parts.append(('bat_part%d.cpp' % k, '\n'.join(out) + '\n'))
    ks = [int(p[0][8:-4]) for p in parts]
    m = [qgen.includes({}), '#include "PhQ/Vector.hpp"', '#include "PhQ/PlanarVector.hpp"', '#include "PhQ/SymmetricDyad.hpp"', '#include "PhQ/Dyad.hpp"', '#include "battery.hpp"']
    m += ['void bpart_%d(const std::string&, const bat::Suite&, uint64_t, int);' % k for k in ks]
    m.append('int main(int argc, char** argv){ if(argc<5){ fprintf(stderr,"usage: battery mode suite seed n [part]\\n"); return 2; }')
    m.append('  std::string mode=argv[1]; bat::Suite s; if(mode=="replay" && !bat::load_suite(argv[2], s)){ perror(argv[2]); return 3; }')
    m.append('  uint64_t seed=strtoull(argv[3],0,10); int n=atoi(argv[4]); int only = argc>5? atoi(argv[5]) : -1;')
    m += ['  if(only<0||only==%d) bpart_%d(mode, s, seed, n);' % (k, k) for k in ks]
    m.append('  return 0; }')
    parts.append(('bat_main.cpp', '\n'.join(m) + '\n'))
    return parts, ks
