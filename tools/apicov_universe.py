#!/usr/bin/env python3
"""tools/apicov_universe.py <build dir of the repository's suite compiled with --coverage and run> — lists the library functions (header, line)
the repository's own tests execute that no conformance harness instantiates or executes (see tools/apicov.py)."""
import concurrent.futures as cf, glob, json, os, subprocess, sys, collections
bd = sys.argv[1]
def gc(gcda):
    r = subprocess.run(['gcov', '-j', '-t', '-m', gcda], stdout=subprocess.PIPE, stderr=subprocess.DEVNULL, cwd=os.path.dirname(gcda))
    out = []
    try: j = json.loads(r.stdout.decode(errors='replace'))
    except Exception: return out
    for f in j.get('files', []):
        if '/include/PhQ/' not in f['file']: continue
        rel = f['file'].split('/include/PhQ/')[1]
        for x in f.get('functions', []):
            out.append((rel, x['start_line'], x.get('demangled_name', x['name']), x['execution_count']))
    return out
uni = {}
gcdas = glob.glob(bd + '/**/*.gcda', recursive=True)
with cf.ThreadPoolExecutor(14) as ex:
    for lst in ex.map(gc, gcdas):
        for rel, line, name, cnt in lst:
            v = uni.setdefault((rel, line), {'names': set(), 'count': 0}); v['names'].add(name[:110]); v['count'] += cnt
har = {(f['file'], f['line']): f for f in json.load(open('/var/tmp/phq_apicov/harness_functions.json'))}
print('universe (suite) functions:', len(uni), 'executed by suite:', len([1 for v in uni.values() if v['count']]), 'harness functions:', len(har))
gaps = collections.defaultdict(list)
for k, v in sorted(uni.items()):
    if v['count'] == 0: continue
    h = har.get(k)
    if h is None or h['count'] == 0:
        gaps[k[0]].append((k[1], sorted(v['names'])[0], 'not instantiated' if h is None else 'never executed'))
n = sum(len(v) for v in gaps.values())
print('executed by the suite but by no harness:', n)
for f, lst in sorted(gaps.items()):
    print('==', f, len(lst))
    for line, name, why in lst[:12]:
        print('   ', line, name[:100], '-', why)
json.dump({f: lst for f, lst in gaps.items()}, open('/var/tmp/phq_apicov/gaps.json', 'w'), indent=0)
