------------------------------- MODULE Parse -------------------------------
(* C20: parsing and table lookups as total functions.  A parse has exactly two outcomes, "value"  *)
(* and "nothing"; "threw" and "fault" (sanitizer report, abort, crash) are not outcomes of any     *)
(* action of the specification.  A lookup action requires  key \in DOMAIN table : every enumerator *)
(* must be a key of every table (checked on the extracted tables by Trace_Units).                  *)
EXTENDS Integers
ParseOutcomes == {"value", "nothing"}
ParseClassOK(r) == r.threw = 0 /\ r.value + r.nothing = r.n
(* Which strings yield a value is not part of C20 (a parser that trims whitespace is as total as one *)
(* that does not): disagreement with the reference reading (exact spelling for enumerations,         *)
(* strtof/strtod/strtold for numbers) is recorded as a note beyond the listed properties.            *)
ParseClassAsReference(r) == r.differs = 0
=============================================================================
