"""Shared code generation helpers for harnesses that are generic over the quantity typelist."""

RAW = {
    'Scalar': '{x}[{o}]',
    'PlanarVector': 'PlanarVector<T>{{{x}[{o}],{x}[{o}+1]}}',
    'Vector': 'Vector<T>{{{x}[{o}],{x}[{o}+1],{x}[{o}+2]}}',
    'SymmetricDyad': 'SymmetricDyad<T>{{{x}[{o}],{x}[{o}+1],{x}[{o}+2],{x}[{o}+3],{x}[{o}+4],{x}[{o}+5]}}',
    'Dyad': 'Dyad<T>{{{x}[{o}],{x}[{o}+1],{x}[{o}+2],{x}[{o}+3],{x}[{o}+4],{x}[{o}+5],{x}[{o}+6],{x}[{o}+7],{x}[{o}+8]}}',
}
NCOMP = {'Scalar': 1, 'PlanarVector': 2, 'Vector': 3, 'SymmetricDyad': 6, 'Dyad': 9}
RAWTYPES = ['PlanarVector', 'Vector', 'SymmetricDyad', 'Dyad']
NORMALISED = ('Direction', 'PlanarDirection')


def shape_of(t, qs):
    if t == 'Number':
        return 'Scalar'
    if t in RAWTYPES:
        return t
    return qs[t]['shape']


def mk(t, qs, x='x', o='0'):
    """C++ expression building an object of quantity type t<T> from SI components x[o..]."""
    if t == 'Number':
        return f'{x}[{o}]'
    if t in RAWTYPES:
        return RAW[t].format(x=x, o=o)
    q = qs[t]
    if t == 'Direction':
        return f'Direction<T>({x}[{o}],{x}[{o}+1],{x}[{o}+2])'
    if t == 'PlanarDirection':
        return f'PlanarDirection<T>({x}[{o}],{x}[{o}+1])'
    r = RAW[q['shape']].format(x=x, o=o)
    return f'{t}<T>({r}, Standard<Unit::{q["unit"]}>)' if q['unit'] else f'{t}<T>({r})'


COMPS_HPP = r'''
// components of a value in declared slot order
template<class T> inline int put(const T& v, T* out){ out[0]=v; return 1; }
template<class T> inline int put(const PhQ::PlanarVector<T>& v, T* out){ auto a=v.x_y(); for(int i=0;i<2;i++) out[i]=a[i]; return 2; }
template<class T> inline int put(const PhQ::Vector<T>& v, T* out){ auto a=v.x_y_z(); for(int i=0;i<3;i++) out[i]=a[i]; return 3; }
template<class T> inline int put(const PhQ::SymmetricDyad<T>& v, T* out){ auto a=v.xx_xy_xz_yy_yz_zz(); for(int i=0;i<6;i++) out[i]=a[i]; return 6; }
template<class T> inline int put(const PhQ::Dyad<T>& v, T* out){ auto a=v.xx_xy_xz_yx_yy_yz_zx_zy_zz(); for(int i=0;i<9;i++) out[i]=a[i]; return 9; }
template<class Q, class T> inline auto putq(const Q& q, T* out) -> decltype(put(q.Value(), out)) { return put(q.Value(), out); }
'''


def includes(qs, extra=()):
    inc = sorted(set('#include "PhQ/%s"' % q['header'] for q in qs.values()))
    return '\n'.join(inc + list(extra))
