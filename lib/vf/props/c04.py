"""C04 — arithmetic on quantities is exactly arithmetic on their SI values."""
import json
import os
import random

from .. import common as C, relfacts as RF, relations as R, battery as B, programs as PG


def binop_events(ev, rels, seed, reps):
    """K3 on the exact sub-domain: every operator instance on small-integer operands, three numeric types."""
    rnd = random.Random(seed)
    ops = [r for r in rels if r['kind'] == 'op']
    q, meta = [], []
    for r in ops:
        na, nb = r['asz']
        for num in 'fdl':
            for _ in range(reps):
                if r['op'] == '/':
                    b = [rnd.choice([1, 2, -3, 4, 5, -6, 7]) for _ in range(nb)]
                    n = max(na, nb)
                    qv = [rnd.randint(-9, 9) or 2 for _ in range(n)]
                    a = [qv[i] * b[i if nb > 1 else 0] for i in range(n)][:na] if na >= nb else None
                    if a is None:
                        a = [qv[0] * b[0]]
                elif r['rsz'] == 6 and na == 1 and nb == 1:
                    a = [3 * (rnd.randint(1, 9))]
                    b = [rnd.choice([-7, -5, -2, 2, 4, 5, 8])]
                else:
                    a = rnd.sample(range(1, 10), na) if na > 1 else [rnd.randint(2, 9)]
                    a = [x * rnd.choice((1, -1)) for x in a]
                    b = rnd.sample(range(1, 10), nb) if nb > 1 else [rnd.randint(2, 9)]
                    b = [x * rnd.choice((1, -1)) for x in b]
                for side, arr, n_ in ((0, a, na), (1, b, nb)):
                    if r['args'][side] in ('Direction', 'PlanarDirection'):      # normalised operand: an exact axis direction
                        ax = rnd.randrange(n_)
                        arr[:] = [(rnd.choice((1, -1)) if i == ax else 0) for i in range(n_)]
                q.append((r['id'], num, [float(x) for x in a] + [0.0] * (9 - na) + [float(x) for x in b]))
                meta.append((r, num, a, b))
    res = ev.batch(q)
    events = []
    for (r, num, a, b), out in zip(meta, res):
        exact = out is not None and all(x == int(x) and abs(x) < 2 ** 30 for x in out)
        events.append({'e': 'BinOp', 'k': '|'.join([r['args'][0], r['op'], r['args'][1]]), 'op': r['op'], 'ret': r['ret'], 'num': num,
                       'a': a, 'b': b, 'out': [int(x) for x in out] if exact else [], 'exact': exact})
    return events


def run(tier):
    chk = C.Check('C04', tier)
    thorough = tier == 'thorough'
    # ---- Layer A.1: operator meaning and constructor twins on fingerprints (K1) + twin values bit for bit
    out = RF.run(n=40 if not thorough else 300)
    RF.report(chk, 'C04', out)
    rels = out['rels']
    tw = [e for e in out['facts'] if e['e'] == 'TwinNum']
    chk.layer('A.twins', operator_instances=len([r for r in rels if r['kind'] == 'op']), twins=len(out['twins']),
              twin_value_events=len(tw), ambiguous_twins=out['ambiguous_twins'][:10])
    # ---- Layer A.2: K3 every operator instance on integers, validated by Trace_Ops
    ev = R.Evaluator(out['exe'])
    try:
        bev = binop_events(ev, rels, C.SEED, 2 if not thorough else 8)
    finally:
        ev.close()
    wd = out['workdir']
    g = out['graph']
    gp = os.path.join(wd, 'opgraph.json')
    json.dump({f'{a}|{op}|{b}': c for a, op, b, c in g['ops'] if not (a == 'Number' and b == 'Number')}, open(gp, 'w'))
    tp = C.write_ndjson(os.path.join(wd, 'binop.ndjson'), bev)
    outp = os.path.join(wd, 'binop_bad.json')
    res = C.run_tlc('Trace_Ops', 'Trace_Ops.cfg', env={'TRACE': tp, 'GRAPH': gp, 'OUT': outp}, workers=1, timeout=900)
    chk.add_tlc('Trace_Ops(K3 operator instances on integers)', res, traces=1, events=len(bev))
    if res.ok and os.path.exists(outp):
        j = json.load(open(outp))
        for b in j['bad']:
            chk.violation(f"binop:{b['k']}", f"operator {b['k']} ({b['num']}): {b['a']} , {b['b']} -> {b['out']}", b)
        if j['covered'] != j['expected']:
            chk.note_inconclusive(f"operator instances exercised {j['covered']} of {j['expected']}")
        chk.layer('A.ops', events=len(bev), instances_x_numeric_types=j['covered'])
    else:
        k = res.distinct - 1
        chk.violation('binop_trace_rejected', f'Trace_Ops rejected event {k}: {bev[k] if k < len(bev) else None}', bev[k] if k < len(bev) else None)
    # ---- Layer A.2b: K2 across types: TLC-simulated programs chaining relations of the whole graph, replayed through the evaluator
    pr = PG.run(out, 4000 if not thorough else 60000, wd)
    chk.add_tlc('Programs simulate (cross-type programs over the relation graph)', pr['tlc'])
    chk.cov['traces_validated_against_impl'] += pr['behaviours']
    for m in pr['mismatches'][:20]:
        chk.violation(f"program_step:{m['a']['q']}{m['op'] or ' ctor '}{m['b']['q']}->{m['result_type']}", f"program step {m['act']} in {m['num']}: spec {m['spec']} impl {m['impl']}", m)
    chk.layer('A.programs', behaviours=pr['behaviours'], steps=pr['steps'], relation_steps_x_numeric_types=pr['relation_steps'], distinct_relations=pr['distinct_relations'], sample=pr['sample'][:6])
    # ---- Layer A.3: K2 histories of Store.tla replayed on every type; Layer B: bitwise arithmetic on random reals
    exe, qs, ks = B.build()
    mc = C.run_tlc('MC_Store', 'MC_Store_3.cfg', workers=8, timeout=900)
    chk.add_tlc('MC_Store(BFS small scope, vector shape)', mc)
    mc1 = C.run_tlc('MC_Store', 'MC_Store_1.cfg', workers=8, timeout=900, coverage=True)
    chk.add_tlc('MC_Store(BFS small scope, scalar shape)', mc1)
    if not (mc.ok and mc1.ok):
        raise C.ToolError('MC_Store failed:\n' + (mc.out + mc1.out)[-2000:])
    # vacuity guard (-coverage 1): every action of the register machine was taken in the bounded model
    expected_actions = ['Construct', 'Zero', 'CopyConstruct', 'Assign', 'MoveFrom', 'ConstructIn', 'CreateIn', 'ReadIn', 'Add', 'Sub', 'MulN', 'NMul', 'DivN',
                        'RatioOf', 'AddEq', 'SubEq', 'MulEq', 'DivEq', 'SetValue', 'MutableWrite', 'ReadValue', 'Serialize']
    never = [a for a in expected_actions if mc1.coverage.get(a, (0, 0))[0] == 0]
    if never:
        raise C.ToolError(f'vacuous MC_Store run: actions never taken: {never}')
    chk.layer('A.model', actions_taken={a: mc1.coverage[a][0] for a in expected_actions})
    bs, stats, sims = B.generate_behaviours(400 if not thorough else 4000)
    for (n, caps), r in sorted(sims.items()):
        chk.add_tlc(f'Store simulate ncomp={n} {caps}', r)
    suite = B.write_suite(os.path.join(wd, 'suite.txt'), bs)
    evs = B.run_modes(exe, ks, ['replay'], suite=suite) + B.run_modes(exe, ks, ['arith', 'mathfn'], n=3000 if not thorough else 60000)
    res2, result = B.validate(evs, qs, wd, 'c04')
    B.report(chk, 'Trace_Battery(replay + bitwise arithmetic)', evs, res2, result, {'replay', 'arith_pure', 'arith_compound', 'mathfn'})
    rp = [e for e in evs if e['e'] == 'Replay']
    ar = [e for e in evs if e['e'] == 'Arith']
    chk.cov['traces_validated_against_impl'] += sum(e['behaviours'] for e in rp)
    chk.layer('A.histories', behaviours_generated=len(bs), replays=sum(e['behaviours'] for e in rp), steps_compared=sum(e['steps'] for e in rp),
              type_x_numeric_type=len(rp), generation=stats)
    mf = [e for e in evs if e['e'] == 'MathFn']
    chk.layer('B', arith_events=len(ar), operand_sets=sum(e['n'] for e in ar), mathfn_events=len(mf), mathfn_types=len({e['type'] for e in mf}))
    chk.count(evaluations=len(bev) + sum(e['steps'] for e in rp) + sum(e['n'] for e in ar) + sum(e['n'] for e in tw),
              distinct=len(bev) + len(bs) + len(ar) + len(tw))
    chk.cov['rule'] = ('operator instances: all 781 detected x 3 numeric types on integer operands with distinct components (exact sub-domain, '
                       'TLC recomputes); histories: TLC-simulated behaviours of Store.tla (12 steps over 3 registers: construct, copy, move, + - * /, '
                       'compound assignments in any interleaving, mutators, reads) replayed on every quantity type of the shape and all three numeric '
                       'types with full state comparison after each step; numeric layer: random reals, pure operator vs native operation and compound '
                       'vs pure, bit for bit; twins: operator vs constructor bit for bit')
    chk.sample(bev[0])
    chk.sample({'behaviour': [{k: v for k, v in s.items() if k in ('act', 'dst', 'a', 'b', 'n')} for s in bs[0][2]]} if bs else {})
    chk.sample(ar[0] if ar else {})
    chk.assumptions += ['IEEE-754 arithmetic with -fno-fast-math -ffp-contract=off: native + - * / are correctly rounded',
                        'math functions: every dimensionless scalar type for which std::sqrt/std::exp are callable, 8 functions, bitwise against the same function of Value()']
    return chk.finish()
