------------------------------- MODULE MC_Order -------------------------------
(* The lexicographic order of Order.tla is a strict total order on sequences of equal length, and *)
(* the six derived operators are mutually consistent (checked for all triples of length-3         *)
(* sequences over three ranks).                                                                    *)
EXTENDS Order, TLC
VARIABLES a, b, c
S == [1..3 -> 0..2]
Init == a \in S /\ b \in S /\ c \in S
Next == UNCHANGED <<a, b, c>>
Spec == Init /\ [][Next]_<<a, b, c>>
Tri == (IF LexLess(a, b) THEN 1 ELSE 0) + (IF LexLess(b, a) THEN 1 ELSE 0) + (IF a = b THEN 1 ELSE 0) = 1
Trans == LexLess(a, b) /\ LexLess(b, c) => LexLess(a, c)
Derived == LET k == Compare(a, b) IN k.le = (k.lt \/ k.eq) /\ k.ge = (k.gt \/ k.eq) /\ k.ne = ~k.eq /\ (k.lt => ~k.gt)
FirstDifference == LexLess(a, b) <=> \E i \in 1..3 : a[i] < b[i] /\ \A j \in 1..(i - 1) : a[j] = b[j]
=============================================================================
