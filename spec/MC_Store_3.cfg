SPECIFICATION Spec
CONSTANTS Regs = {"r1", "r2"}  NComp = 3  Patterns <- P3  Nums <- NumsMC  Caps <- AllCaps  Factor = 60  MaxAbs = 2000  Depth = 4
INVARIANT TypeOK
PROPERTIES ReadBack ReadsAreReadOnly CompoundEqualsPure OperandsUnchanged ZeroIsZero
CONSTRAINT Bound
VIEW View
CHECK_DEADLOCK FALSE
