"""The per-type battery: build; K2 (TLC behaviours of Store.tla replayed on every quantity type x numeric
type); K3 (layout / cast / comparison events validated by Trace_Battery.tla)."""
import concurrent.futures as cf
import json
import os
import re
import sys

from . import common as C

sys.path.insert(0, os.path.join(C.VERIF, 'extract'))
sys.path.insert(0, C.HARNESS)
import scan          # noqa: E402
import gen_battery   # noqa: E402
import qgen          # noqa: E402
import units as unitsmod  # noqa: E402

UNIT_FACTORS = (1000, 60, 10000, 1000000)
ACT_NEEDS = {'Add': 'add', 'Sub': 'sub', 'MulN': 'muln', 'NMul': 'nmul', 'DivN': 'divn', 'Ratio': 'ratio', 'AddEq': 'addeq',
             'SubEq': 'subeq', 'MulEq': 'muleq', 'DivEq': 'diveq', 'SetValue': 'set', 'MutableWrite': 'mutable', 'Zero': 'zero'}
PATTERNS = {   # must equal MC_Store.tla P1..P9
    1: [[6], [-4], [12]],
    2: [[6, -4], [3, 8], [-12, 2]],
    3: [[6, -4, 12], [3, 8, -2], [-12, 2, 4]],
    6: [[6, -4, 12, 8, -2, 10], [3, 8, -2, 5, 7, -9], [-12, 2, 4, -6, 14, 16]],
    9: [[6, -4, 12, 8, -2, 10, 14, -16, 18], [3, 8, -2, 5, 7, -9, 1, 4, -6], [-12, 2, 4, -6, 14, 16, -8, 10, 20]],
}


def build():
    qs = scan.scan_quantities()
    parts, ks = gen_battery.sources(qs, unitpick=unitsmod.integer_factor_units(scan.scan_units()))
    srcs = [C.gen_file(n, t) for n, t in parts]
    exe = C.compile_cxx('battery', srcs, flags=['-std=c++17', '-O1', '-fno-fast-math', '-ffp-contract=off', '-w'], timeout=3400)
    return exe, qs, ks


def parse_behaviours(out):
    bs = []
    for ln in out.splitlines():
        if not ln.startswith('<<"BEHAVIOUR"'):
            continue
        i = ln.index('"[')
        j = ln.rindex(']"')
        js = ln[i + 1:j + 1].replace('\\"', '"').replace('\\\\', '\\')
        bs.append(json.loads(js))
    return bs


def generate_behaviours(num, depth=12):
    """TLC -simulate on Store.tla for each shape and capability set -> list of (ncomp, behaviour)"""
    jobs = [(n, caps) for n in (1, 2, 3, 6, 9) for caps in ('AllCaps', 'AffineCaps')]
    jobs += [(n, f'F{F}') for n in (1, 2, 3, 6, 9) for F in UNIT_FACTORS]
    results = {}

    def one(j):
        n, caps = j
        res = C.run_tlc('MC_Store', f'Sim_Store_{n}_{caps}.cfg', workers=2, simulate=(num if not caps.startswith('F') else max(20, num // 5)), depth=depth + 2, timeout=900,
                        extra=['-seed', str(C.SEED % 100000 + n)])
        return j, res
    with cf.ThreadPoolExecutor(8) as ex:
        for j, res in ex.map(one, jobs):
            results[j] = res
    allb = []
    stats = []
    for (n, caps), res in sorted(results.items()):
        bs = parse_behaviours(res.out)
        stats.append({'ncomp': n, 'caps': caps, 'behaviours': len(bs), 'states_generated': res.generated})
        F = int(caps[1:]) if caps.startswith('F') else 0
        allb += [(n, F, b) for b in bs]
    return allb, stats, results


def write_suite(path, behaviours):
    def cs(v):
        return ','.join(str(int(x)) for x in v) if v else '-'
    with open(path, 'w') as f:
        for n, pats in PATTERNS.items():
            for p in pats:
                f.write(f'P {n} {cs(p)}\n')
        for n, F, b in behaviours:
            needs = sorted({ACT_NEEDS[s['act']] for s in b if s['act'] in ACT_NEEDS})
            f.write(f'B {n} {F} ' + ' '.join(needs) + '\n')
            for s in b:
                st = s['st']
                regs = ' '.join((cs(st[r]) if st[r] else 'U') for r in ('r1', 'r2', 'r3'))
                f.write(f"S {s['act']} {s['dst'] or '-'} {s['a'] or '-'} {s['b'] or '-'} {s['n']} {regs} {cs(s['obs'])}\n")
    return path


def run_modes(exe, ks, modes, suite='-', n=2000):
    evs = []

    def one(j):
        mode, k = j
        return C.run([exe, mode, suite, str(C.SEED), str(n), str(k)], timeout=1700).stdout.decode()
    with cf.ThreadPoolExecutor(C.NCPU) as ex:
        for o in ex.map(one, [(m, k) for m in modes for k in ks]):
            for ln in o.splitlines():
                if ln.startswith('{'):
                    evs.append(json.loads(ln))
    return evs


def validate(evs, qs, wd, tag):
    shapes = {n: q['shape'] for n, q in qs.items()}
    for r in qgen.RAWTYPES:
        shapes[r] = r
    sp = os.path.join(wd, 'shapes.json')
    json.dump(shapes, open(sp, 'w'))
    tp = C.write_ndjson(os.path.join(wd, f'battery_{tag}.ndjson'), evs)
    outp = os.path.join(wd, f'battery_{tag}_bad.json')
    res = C.run_tlc('Trace_Battery', 'Trace_Battery.cfg', env={'TRACE': tp, 'SHAPES': sp, 'OUT': outp}, workers=1, timeout=1200)
    ok = res.ok and os.path.exists(outp)
    return res, (json.load(open(outp)) if ok else None)


def report(chk, name, evs, res, result, classes):
    chk.add_tlc(name, res, traces=1, events=len(evs))
    if result is None:
        k = res.distinct - 1
        e = evs[k] if 0 <= k < len(evs) else None
        chk.violation(f'battery_trace_rejected:{(e or {}).get("e")}:{(e or {}).get("type")}', f'Trace_Battery rejected event {k}: {e}', e)
        return
    for b in result['bad']:
        if b['cls'].startswith('inconclusive'):
            chk.note_inconclusive(f"{b['cls']}:{b['type']}:{b['num']}")
        elif b['cls'] in classes:
            detail = [e for e in evs if e.get('type') == b['type'] and (e.get('num') == b['num'] or b['cls'] == 'cast')][:1]
            chk.violation(f"{b['cls']}:{b['type']}:{b['num']}", f"{b['cls']} {b['type']} {b['num']} {json.dumps(detail)[:400]}", b)
