// libFuzzer target (C20 thorough tier): the parsers on arbitrary byte strings, under ASan + UBSan.
#include <cstddef>
#include <cstdint>
#include <string>
#include "PhQ/Base.hpp"
#include "PhQ/UnitSystem.hpp"
#include "PhQ/Unit/Length.hpp"
#include "PhQ/Unit/Temperature.hpp"
#include "PhQ/Unit/Pressure.hpp"
extern "C" int LLVMFuzzerTestOneInput(const uint8_t* data, size_t size) {
  std::string s(reinterpret_cast<const char*>(data), size);
  try {
    auto a = PhQ::ParseNumber<float>(s); auto b = PhQ::ParseNumber<double>(s); auto c = PhQ::ParseNumber<long double>(s);
    auto d = PhQ::ParseEnumeration<PhQ::Unit::Length>(s); auto e = PhQ::ParseEnumeration<PhQ::Unit::Temperature>(s);
    auto f = PhQ::ParseEnumeration<PhQ::Unit::Pressure>(s); auto g = PhQ::ParseEnumeration<PhQ::UnitSystem>(s);
    if (b.has_value()) { std::string t = PhQ::Print(*b); if (*b == *b && std::isfinite(*b) && PhQ::ParseNumber<double>(t).value_or(0) != *b && (std::fabs(*b) >= 2.3e-308)) __builtin_trap(); }
    (void)a; (void)c; (void)d; (void)e; (void)f; (void)g;
  } catch (...) { __builtin_trap(); }   // the parsers never throw
  return 0;
}
