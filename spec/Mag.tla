------------------------------- MODULE Mag -------------------------------
(* Positive real magnitudes of the form  q * pi^k  (q rational) as bags: prime |-> exponent,   *)
(* with "pi" as one more generator.  By unique factorisation (and transcendence of pi) two      *)
(* magnitudes are equal iff their normalised bags are equal, so TLC decides equality of unit    *)
(* factors exactly without ever computing a number.  Keys are strings ("2", "127", "pi").       *)
EXTENDS Integers, Sequences, Functions, TLC

BagGet(b, p)   == IF p \in DOMAIN b THEN b[p] ELSE 0
BagNorm(b)     == Restrict(b, {p \in DOMAIN b : b[p] # 0})
BagAdd(a, b)   == BagNorm([p \in DOMAIN a \cup DOMAIN b |-> BagGet(a, p) + BagGet(b, p)])   \* product of magnitudes
BagScale(k, a) == BagNorm([p \in DOMAIN a |-> k * a[p]])                                    \* k-th power
BagInv(a)      == BagScale(-1, a)
BagSub(a, b)   == BagAdd(a, BagInv(b))                                                       \* quotient
One            == <<>>
BagEq(a, b)    == BagNorm(a) = BagNorm(b)
(* a JSON object read by ndJsonDeserialize is a record; as a function it is already a bag *)
AsBag(r)       == BagNorm([p \in DOMAIN r |-> r[p]])
IsPowerOfTwo(b) == DOMAIN BagNorm(b) \subseteq {"2"}
=============================================================================
