"""C07 — each unit system is coherent.  Layer A: exhaustive over 148 consistent units and
all reverse lookups, decided by TLC on exact magnitudes (prime-exponent bags)."""
from .. import common as C, unitsfacts as U


def run(tier):
    chk = C.Check('C07', tier)
    out = U.run()
    U.report(chk, 'C07', out)
    f = out['facts']
    cons = [e for e in f if e['e'] == 'Consistent']
    rel = [e for e in f if e['e'] == 'Related']
    impl = [e for e in f if e['e'] == 'ImplCoherent']
    cnum = [e for e in f if e['e'] == 'CoherenceNum']
    chk.count(evaluations=len(cons) + len(rel) + len(impl), distinct=len(cons) + len(rel) + len(impl))
    chk.cov['rule'] = ('one fact per (unit type, unit system) entry of the forward table read through ConsistentUnit<U>() and the '
                       'Internal map, and one per enumerator for RelatedUnitSystem(); every fact is distinct and non-trivial: TLC '
                       'compares the magnitude bag of the unit symbol with the product of the system base units, and the slope parsed from the body of the '
                       'consistent unit\'s own conversion routine (both directions) with the product of the implemented slopes of the consistent units of the six base unit types')
    chk.cov['exhaustive'] = True
    for e in cons[:3] + rel[:2]:
        chk.sample(e)
    chk.layer('A', consistent_entries=len(cons), reverse_lookups=len(rel), implemented_coherence_facts=len(impl), systems=4,
              unit_types=len(out['units']))
    chk.layer('B', numeric_coherence_events=len(cnum), worst_ulps=max([max(e['ulps_to'], e['ulps_from']) for e in cnum] or [0]),
              note='the numbers the real conversion routines produce for one consistent unit, in float, double and long double, against the product of the measured base-unit values (exact rational arithmetic); budget 3 ulps per constant involved')
    chk.assumptions += ['spec/atoms.def gives the SI definitions of the unit atoms (hand-written, independent of the code)',
                        'symbols are tokenised outside TLC; an untokenisable symbol is reported as inconclusive, not as a violation']
    return chk.finish()
