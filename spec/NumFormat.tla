------------------------------- MODULE NumFormat -------------------------------
(* C15: the printing contract.                                                                     *)
(* Numbers: a finite normal number of numeric type num prints with exactly max_digits10(num) + 1   *)
(* significant digits, in fixed notation when 0.001 <= |x| < 10000 (decimal exponent -3..3) and in  *)
(* scientific notation otherwise; either zero prints as "0"; parsing the text returns the number    *)
(* bit for bit.  A decision table over (num, decimal exponent, is-zero).                            *)
(* Composite forms: token templates per shape, with '#' for a number string and '@' for the unit    *)
(* abbreviation; dimensional quantities wrap the value form.                                        *)
EXTENDS Integers, Sequences, TLC
MaxDigits10 == [f |-> 9, d |-> 17, l |-> 21]
SigDigits(num) == MaxDigits10[num] + 1
Notation(e10, isZero) == IF isZero THEN "zero" ELSE IF e10 >= -3 /\ e10 <= 3 THEN "fixed" ELSE "scientific"
NumberOK(num, e10, isZero, notation, sig, roundtrip) ==
  /\ notation = Notation(e10, isZero)
  /\ isZero \/ sig = SigDigits(num)
  /\ roundtrip
(* decades every numeric type must have been exercised in *)
DecadeRange == [f |-> <<-37, 38>>, d |-> <<-307, 308>>, l |-> <<-4931, 4932>>]

(* ---- composite forms ---- *)
Fields == [Scalar |-> <<>>, PlanarVector |-> <<"x", "y">>, Vector |-> <<"x", "y", "z">>,
           SymmetricDyad |-> <<"xx", "xy", "xz", "yy", "yz", "zz">>,
           Dyad |-> <<"xx", "xy", "xz", "yx", "yy", "yz", "zx", "zy", "zz">>]
RECURSIVE Join(_, _)
Join(s, sep) == IF s = <<>> THEN "" ELSE IF Len(s) = 1 THEN s[1] ELSE s[1] \o sep \o Join(Tail(s), sep)
Map(s, F(_)) == [i \in 1..Len(s) |-> F(s[i])]
ValuePrint(shape) ==
  CASE shape = "Scalar" -> "#"
    [] shape = "PlanarVector" -> "(#, #)"
    [] shape = "Vector" -> "(#, #, #)"
    [] shape = "SymmetricDyad" -> "(#, #, #; #, #; #)"
    [] shape = "Dyad" -> "(#, #, #; #, #, #; #, #, #)"
ValueJSON(shape) == IF shape = "Scalar" THEN "#" ELSE "{" \o Join(Map(Fields[shape], LAMBDA n : "\"" \o n \o "\":#"), ",") \o "}"
ValueXML(shape)  == IF shape = "Scalar" THEN "#" ELSE Join(Map(Fields[shape], LAMBDA n : "<" \o n \o ">#</" \o n \o ">"), "")
ValueYAML(shape) == IF shape = "Scalar" THEN "#" ELSE "{" \o Join(Map(Fields[shape], LAMBDA n : n \o ":#"), ",") \o "}"
Template(shape, dimensional, form) ==
  CASE form \in {"Print", "stream"} -> IF dimensional THEN ValuePrint(shape) \o " @" ELSE ValuePrint(shape)
    [] form = "JSON" -> IF dimensional THEN "{\"value\":" \o ValueJSON(shape) \o ",\"unit\":\"@\"}" ELSE ValueJSON(shape)
    [] form = "XML"  -> IF dimensional THEN "<value>" \o ValueXML(shape) \o "</value><unit>@</unit>" ELSE ValueXML(shape)
    [] form = "YAML" -> IF dimensional THEN "{value:" \o ValueYAML(shape) \o ",unit:\"@\"}" ELSE ValueYAML(shape)
=============================================================================
