"""C01 — every unit converts by the factor its own symbol implies, to a few ulps."""
from .. import common as C, unitsfacts as U, convfacts as V


def run(tier):
    chk = C.Check('C01', tier)
    out = U.run()
    U.report(chk, 'C01', out)                       # Layer A: exact factors / offsets / dispatch-map keys
    f = out['facts']
    un = [e for e in f if e['e'] == 'Enumerator' and e['kind'] == 'unit']
    parsed = sum(1 for e in un if e['parsed'])
    chk.layer('A', units=len(un), conversion_bodies_parsed_exactly=2 * parsed,
              note='symbol magnitude (bag) = implemented factor (bag), both directions, offsets for C/F only')
    if out['accepted']:
        cout = V.run(out, tier)
        V.report(chk, 'C01', cout, {'conv_nonfinite', 'conv_ulps', 'conv_zero_not_zero', 'conv_sign_asymmetric', 'conv_sequence_overload'})
        evs = cout['events']
        nvals = sum(e['n'] for e in evs)
        j = cout['result'] or {}
        if cout['accepted'] and (j.get('missing_to_std') or j.get('missing_from_std')):
            chk.note_inconclusive(f"legs not exercised: to_std {j['missing_to_std']} from_std {j['missing_from_std']} of {j['expected_legs']}")
        seq_static = len([e for e in evs if e['entry'] == 'static' and e['seq_n'] > 0])
        if seq_static < 2 * 3 * (len(un) - 37):
            chk.note_inconclusive(f'sequence overloads of ConvertStatically instantiated for only {seq_static} (pair, numeric type) combinations')
        chk.layer('B.sequences', static_pairs_with_sequence_overloads=seq_static, runtime_pairs_with_sequence_overloads=len([e for e in evs if e['entry'] == 'run']),
                  component_comparisons=sum(max(0, e['seq_n']) for e in evs),
                  note='std::array / std::vector / PlanarVector / Vector / SymmetricDyad / Dyad overloads of Convert, ConvertInPlace (every run-time pair) and ConvertStatically '
                       '(every unit to / from standard and to its successor) against the scalar overload, within two representable neighbours per component')
        chk.layer('B', abstract_events=len(evs), concrete_conversions=nvals,
                  ordered_pairs=len({(e['type'], e['from'], e['to']) for e in evs}),
                  worst_ulps=max([e['ulps'] for e in evs] or [0]), budget_ulps=16,
                  all_ordered_pairs=(tier == 'thorough'))
        chk.count(evaluations=nvals + len(un), distinct=len(evs) + len(un))
        for e in evs[:3] + [e for e in evs if e['affine']][:2]:
            chk.sample(e)
    chk.cov['rule'] = ('Layer A: one fact per unit (514), exact. Layer B: one abstract event per (unit type, from, to, numeric type, '
                       'entry point), each summarising >= 100 concrete values (both zeros, +-1, mantissas over the whole admissible '
                       'exponent range, range edges); quick tier: all pairs touching the standard unit plus a seeded sample of the '
                       'others; thorough: all ordered pairs, compile-time path instantiated for all pairs')
    for e in un[:2]:
        chk.sample({k: e[k] for k in ('type', 'name', 'abbr', 'toks', 'to', 'from')})
    chk.assumptions += ['spec/atoms.def (hand-written SI definitions) is the oracle for factors and offsets',
                        'exact value evaluated in __float128 (113-bit), relative error 1e-33',
                        'input domain: neither x, the SI intermediate nor the result leaves the normal range (16 binades margin)']
    return chk.finish()
