SPECIFICATION Spec
CONSTANTS MaxA = 3 MaxB = 2 MaxC = 1
INVARIANTS Trichotomy Transitive Irreflexive PrintSound Derived
CONSTRAINT Scope
CHECK_DEADLOCK FALSE
