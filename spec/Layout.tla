------------------------------- MODULE Layout -------------------------------
(* C17: a quantity is exactly NComp(shape) numbers of its numeric type in memory.                 *)
EXTENDS Integers
ShapeNComp == [Scalar |-> 1, PlanarVector |-> 2, Vector |-> 3, SymmetricDyad |-> 6, Dyad |-> 9]
LayoutOK(r, ncomp) ==
  /\ r.ncomp = ncomp
  /\ r.sizeof = ncomp * r.sizeof_num          \* no padding, no hidden state
  /\ r.alignof = r.alignof_num
  /\ r.triv = 1 /\ r.stdlayout = 1
  /\ r.image = 1                              \* object bytes = component sequence in slot order
  /\ r.stride = r.sizeof /\ r.array_image = 1 \* arrays of quantities are arrays of numbers
  /\ r.bytecopy = 1
ZeroOK(r) == r.zero_ok = 1 /\ r.zero_pos = 1  \* Zero(): every component is +0 (sign bit clear)
(* C16: a precision cast converts every component with a plain numeric cast, in place *)
CastOK(r) == r.slot_bad = 0 /\ r.bit_bad = 0 /\ r.assign_bad = 0 /\ (r.widening = 1 => r.roundtrip_bad = 0)
=============================================================================
