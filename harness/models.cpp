// C12 / C13 (and the model part of C14): constitutive models.
//   models exact <seed>       K3 events on exact sub-domains (dyadic material family, integer tensors)
//   models real <seed> <n>    numeric layer (random admissible materials), abstract events
#include <cmath>
#include <cstdint>
#include <cstdio>
#include <cstdlib>
#include <cstring>
#include <functional>
#include <memory>
#include <random>
#include <sstream>
#include <string>
#include <vector>
#include <quadmath.h>

#include "PhQ/ConstitutiveModel/CompressibleNewtonianFluid.hpp"
#include "PhQ/ConstitutiveModel/ElasticIsotropicSolid.hpp"
#include "PhQ/ConstitutiveModel/IncompressibleNewtonianFluid.hpp"
using namespace PhQ;
typedef __float128 Qd;
template <class T> struct NN;
template <> struct NN<float> { static constexpr const char* c = "f"; };
template <> struct NN<double> { static constexpr const char* c = "d"; };
template <> struct NN<long double> { static constexpr const char* c = "l"; };
template <class T> using Solid = ConstitutiveModel::ElasticIsotropicSolid<T>;
template <class T> using CFluid = ConstitutiveModel::CompressibleNewtonianFluid<T>;
template <class T> using IFluid = ConstitutiveModel::IncompressibleNewtonianFluid<T>;
static const Unit::Pressure PA = Unit::Pressure::Pascal;

// ---- constructing a solid from a named pair of moduli ----
enum Mod { mE, mG, mKs, mKt, mL, mM, mNu };
static const char* MN[7] = {"E", "G", "Ks", "Kt", "L", "M", "nu"};
struct PairT { Mod a, b; };
static const PairT PAIRS[20] = {{mE, mNu}, {mE, mG}, {mE, mKs}, {mE, mKt}, {mE, mL}, {mE, mM}, {mG, mNu}, {mG, mKs}, {mG, mKt}, {mG, mL},
                                {mG, mM}, {mKs, mL}, {mKt, mL}, {mKs, mM}, {mKt, mM}, {mKs, mNu}, {mKt, mNu}, {mL, mM}, {mL, mNu}, {mM, mNu}};
template <class T> static Solid<T> build(Mod a, Mod b, T x, T y) {
  auto E = [&](T v) { return YoungModulus<T>(v, PA); }; auto G = [&](T v) { return ShearModulus<T>(v, PA); }; auto Ks = [&](T v) { return IsentropicBulkModulus<T>(v, PA); };
  auto Kt = [&](T v) { return IsothermalBulkModulus<T>(v, PA); }; auto L = [&](T v) { return LameFirstModulus<T>(v, PA); }; auto M = [&](T v) { return PWaveModulus<T>(v, PA); };
  auto Nu = [&](T v) { return PoissonRatio<T>(v); };
  int k = a * 10 + b;
  switch (k) {
    case mE * 10 + mNu: return Solid<T>(E(x), Nu(y)); case mE * 10 + mG: return Solid<T>(E(x), G(y)); case mE * 10 + mKs: return Solid<T>(E(x), Ks(y)); case mE * 10 + mKt: return Solid<T>(E(x), Kt(y));
    case mE * 10 + mL: return Solid<T>(E(x), L(y)); case mE * 10 + mM: return Solid<T>(E(x), M(y)); case mG * 10 + mNu: return Solid<T>(G(x), Nu(y)); case mG * 10 + mKs: return Solid<T>(G(x), Ks(y));
    case mG * 10 + mKt: return Solid<T>(G(x), Kt(y)); case mG * 10 + mL: return Solid<T>(G(x), L(y)); case mG * 10 + mM: return Solid<T>(G(x), M(y)); case mKs * 10 + mL: return Solid<T>(Ks(x), L(y));
    case mKt * 10 + mL: return Solid<T>(Kt(x), L(y)); case mKs * 10 + mM: return Solid<T>(Ks(x), M(y)); case mKt * 10 + mM: return Solid<T>(Kt(x), M(y)); case mKs * 10 + mNu: return Solid<T>(Ks(x), Nu(y));
    case mKt * 10 + mNu: return Solid<T>(Kt(x), Nu(y)); case mL * 10 + mM: return Solid<T>(L(x), M(y)); case mL * 10 + mNu: return Solid<T>(L(x), Nu(y)); default: return Solid<T>(M(x), Nu(y)); }
}
template <class T> static T accessor(const Solid<T>& s, Mod m) {
  switch (m) { case mE: return s.YoungModulus().Value(); case mG: return s.ShearModulus().Value(); case mKs: return s.IsentropicBulkModulus().Value(); case mKt: return s.IsothermalBulkModulus().Value();
    case mL: return s.LameFirstModulus().Value(); case mM: return s.PWaveModulus().Value(); default: return s.PoissonRatio().Value(); } }
static Qd exact_mod(Mod m, Qd mu, Qd lam) {
  switch (m) { case mE: return mu * (3 * lam + 2 * mu) / (lam + mu); case mG: return mu; case mKs: case mKt: return lam + 2 * mu / 3; case mL: return lam; case mM: return lam + 2 * mu; default: return lam / (2 * (lam + mu)); } }

template <class T> static std::vector<T> c6(const SymmetricDyad<T>& v) { auto a = v.xx_xy_xz_yy_yz_zz(); return std::vector<T>(a.begin(), a.end()); }
static void pl(const char* k, const std::vector<long long>& v) { printf(",\"%s\":[", k); for (size_t i = 0; i < v.size(); i++) printf("%s%lld", i ? "," : "", v[i]); printf("]"); }
// snap x*S to the nearest integer; distance in ulps of x
template <class T> static long long snap(T x, long long S, double& worst) { Qd sx = (Qd)x * S; long long r = (long long)llroundl((long double)sx); Qd back = (Qd)r / S; if (back != (Qd)x) { int e; frexpq(fabsq(back) > 0 ? back : (Qd)1, &e); double u = (double)(fabsq((Qd)x - back) / ldexpq((Qd)1, e - std::numeric_limits<T>::digits)); if (u > worst) worst = u; } return r; }

// the same, distance measured in ulps of a given scale (the largest term of a sum with cancellation)
template <class T> static long long snap_scaled(T x, T scale, double& worst) { long long r = (long long)llroundl((long double)x); Qd d = fabsq((Qd)x - (Qd)r); if (d != 0) { int e; frexpq((Qd)std::max(std::fabs(scale), (T)1), &e); double u = (double)(d / ldexpq((Qd)1, e - std::numeric_limits<T>::digits)); if (u > worst) worst = u; } return r; }
// ---- exact: dyadic material family ----
template <class T> static void elastic_ctor_exact() {
  // k = 0 stands for the lower edge of the admissible range: nu = 0 (lambda = 0, mu = 3a); every pair except (lambda, nu) determines the material there
  for (int k = 0; k <= 6; k++) for (int a : {1, 2, 3, 5}) { if (k >= 1 && k <= 3) continue; long long P = k ? (1LL << k) : 3 * a; if (k && 3 * a >= P) continue;
      long long S = k ? 2 * P : 2, SN = k ? 2 * P : 2;                   // stiffness scale S = 2^(k+1); Poisson ratio scale SN = 2^(k+1)
      Qd mu = 3 * a, lam = P - 3 * a;
      for (auto& p : PAIRS) { if (k == 0 && p.a == mL && p.b == mNu) continue; T x = (T)exact_mod(p.a, mu, lam), y = (T)exact_mod(p.b, mu, lam);
        Solid<T> s = build<T>(p.a, p.b, x, y); double w = 0;
        long long smu = snap<T>(s.ShearModulus().Value(), S, w), slam = snap<T>(s.LameFirstModulus().Value(), S, w);
        long long sx = snap<T>(x, p.a == mNu ? SN : S, w), sy = snap<T>(y, p.b == mNu ? SN : S, w);
        // accessors evaluated on the exact state (mu, lam) so that their own formulas are what is judged
        Solid<T> ex(ShearModulus<T>((T)mu, PA), LameFirstModulus<T>((T)lam, PA)); double wa = 0;
        printf("{\"e\":\"ElasticCtor\",\"k1\":\"%s\",\"k2\":\"%s\",\"num\":\"%s\",\"S\":%lld,\"SN\":%lld,\"x\":%lld,\"y\":%lld,\"mu\":%lld,\"lam\":%lld,\"snap\":%ld,\"acc\":{", MN[p.a], MN[p.b], NN<T>::c, S, SN, sx, sy, smu, slam, (long)std::ceil(w));
        // the accessor values of the *constructed* object are judged against the constructed (snapped) state
        for (int m = 0; m < 7; m++) { long long v = snap<T>(accessor<T>(s, (Mod)m), m == mNu ? SN : S, wa); printf("%s\"%s\":%lld", m ? "," : "", MN[m], v); }
        printf("},\"acc_snap\":%ld}\n", (long)std::ceil(wa)); (void)ex; } }
}
// ---- exact: stress / strain on integer tensors through every overload and through the abstract interface ----
template <class TM, class TO> static void elastic_maps_exact(std::mt19937_64& g) {
  for (int mu : {1, 2, 4, 3}) for (int lam : {2 * mu, 5}) { if (mu == 3 && lam != 5) continue;
      Solid<TM> s(ShearModulus<TM>((TM)mu, PA), LameFirstModulus<TM>((TM)lam, PA)); const ConstitutiveModel& base = s;
      for (int rep = 0; rep < 3; rep++) { std::vector<long long> e(6); for (auto& x : e) x = (long long)(g() % 19) - 9; if (rep == 0) e = {1, 2, 3, 4, 5, 6};
        Strain<TO> eps(SymmetricDyad<TO>((TO)e[0], (TO)e[1], (TO)e[2], (TO)e[3], (TO)e[4], (TO)e[5])); StrainRate<TO> rate(SymmetricDyad<TO>(9, 8, 7, 6, 5, 4), Unit::Frequency::Hertz);
        for (int via = 0; via < 2; via++) { Stress<TO> st = via ? base.Stress(eps) : s.Stress(eps); auto o = c6(st.Value()); std::vector<long long> oi; bool exact = true; for (auto v : o) { long long r = (long long)v; if ((TO)r != v) exact = false; oi.push_back(r); }
          printf("{\"e\":\"ElasticStress\",\"num\":\"%s\",\"ov\":\"%s\",\"via\":\"%s\",\"mu\":%d,\"lam\":%d,\"exact\":%s", NN<TM>::c, NN<TO>::c, via ? "base" : "direct", mu, lam, exact ? "true" : "false"); pl("eps", e); pl("out", oi); printf("}\n");
          // rate argument ignored; strain-rate-only overload is zero
          Stress<TO> st2 = via ? base.Stress(eps, rate) : s.Stress(eps, rate); Stress<TO> z = via ? base.Stress(rate) : s.Stress(rate); auto zc = c6(z.Value()); bool zero = true; for (auto v : zc) zero &= (v == 0);
          StrainRate<TO> zr = via ? base.StrainRate(st) : s.StrainRate(st); auto zrc = c6(zr.Value()); for (auto v : zrc) zero &= (v == 0);
          printf("{\"e\":\"Stub\",\"model\":\"elastic\",\"num\":\"%s\",\"ov\":\"%s\",\"via\":\"%s\",\"zero_ok\":%d,\"ignored_ok\":%d}\n", NN<TM>::c, NN<TO>::c, via ? "base" : "direct", (int)zero, (int)(st2 == st));
          // inverse: strain of that stress (exact when 1/(2 mu) and lam/(2 mu (2 mu + 3 lam)) are dyadic: lam = 2 mu, mu a power of two)
          Strain<TO> back = via ? base.Strain(st) : s.Strain(st); auto bc = c6(back.Value()); double w = 0; std::vector<long long> bi; TO sc = 0; for (auto v : o) sc = std::max(sc, std::fabs(v)); sc = sc * 3 / (TO)(2 * mu); for (auto v : bc) bi.push_back(snap_scaled<TO>(v, sc, w));
          printf("{\"e\":\"ElasticStrain\",\"num\":\"%s\",\"ov\":\"%s\",\"via\":\"%s\",\"mu\":%d,\"lam\":%d,\"snap\":%ld", NN<TM>::c, NN<TO>::c, via ? "base" : "direct", mu, lam, (long)std::ceil(w)); pl("sigma", oi); pl("out", bi); printf("}\n"); } } }
}
template <class TM, class TO> static void fluid_maps_exact(std::mt19937_64& g) {
  for (int mu : {1, 2, 4, 3}) for (int mub : {2 * mu, 7, 0}) {
      CFluid<TM> c(DynamicViscosity<TM>((TM)mu, Unit::DynamicViscosity::PascalSecond), BulkDynamicViscosity<TM>((TM)mub, Unit::DynamicViscosity::PascalSecond)); IFluid<TM> ic(DynamicViscosity<TM>((TM)mu, Unit::DynamicViscosity::PascalSecond));
      for (int which = 0; which < 2; which++) { if (which == 1 && mub != 0) continue; const ConstitutiveModel& base = which ? (const ConstitutiveModel&)ic : (const ConstitutiveModel&)c; const char* mn = which ? "incompressible" : "compressible";
        for (int rep = 0; rep < 2; rep++) { std::vector<long long> d(6); for (auto& x : d) x = (long long)(g() % 19) - 9; if (rep == 0) d = {1, 2, 3, 4, 5, 6};
          StrainRate<TO> D(SymmetricDyad<TO>((TO)d[0], (TO)d[1], (TO)d[2], (TO)d[3], (TO)d[4], (TO)d[5]), Unit::Frequency::Hertz); Strain<TO> eps(SymmetricDyad<TO>(9, 8, 7, 6, 5, 4));
          for (int via = 0; via < 2; via++) { Stress<TO> st = via ? base.Stress(D) : (which ? ic.Stress(D) : c.Stress(D)); auto o = c6(st.Value()); std::vector<long long> oi; bool exact = true; for (auto v : o) { long long r = (long long)v; if ((TO)r != v) exact = false; oi.push_back(r); }
            printf("{\"e\":\"FluidStress\",\"model\":\"%s\",\"num\":\"%s\",\"ov\":\"%s\",\"via\":\"%s\",\"mu\":%d,\"mub\":%d,\"exact\":%s", mn, NN<TM>::c, NN<TO>::c, via ? "base" : "direct", mu, which ? 0 : mub, exact ? "true" : "false"); pl("d", d); pl("out", oi); printf("}\n");
            Stress<TO> st2 = via ? base.Stress(eps, D) : (which ? ic.Stress(eps, D) : c.Stress(eps, D)); Stress<TO> z = via ? base.Stress(eps) : (which ? ic.Stress(eps) : c.Stress(eps)); bool zero = true; for (auto v : c6(z.Value())) zero &= (v == 0);
            Strain<TO> zs = via ? base.Strain(st) : (which ? ic.Strain(st) : c.Strain(st)); for (auto v : c6(zs.Value())) zero &= (v == 0);
            printf("{\"e\":\"Stub\",\"model\":\"%s\",\"num\":\"%s\",\"ov\":\"%s\",\"via\":\"%s\",\"zero_ok\":%d,\"ignored_ok\":%d}\n", mn, NN<TM>::c, NN<TO>::c, via ? "base" : "direct", (int)zero, (int)(st2 == st));
            StrainRate<TO> back = via ? base.StrainRate(st) : (which ? ic.StrainRate(st) : c.StrainRate(st)); double w = 0; std::vector<long long> bi; TO sc = 0; for (auto v : o) sc = std::max(sc, std::fabs(v)); sc = sc * 3 / (TO)(2 * mu); for (auto v : c6(back.Value())) bi.push_back(snap_scaled<TO>(v, sc, w));
            printf("{\"e\":\"FluidRate\",\"model\":\"%s\",\"num\":\"%s\",\"ov\":\"%s\",\"via\":\"%s\",\"mu\":%d,\"mub\":%d,\"snap\":%ld", mn, NN<TM>::c, NN<TO>::c, via ? "base" : "direct", mu, which ? 0 : mub, (long)std::ceil(w)); pl("sigma", oi); pl("out", bi); printf("}\n"); } }
        // linearity on integers
        { std::vector<long long> x(6), y(6); for (auto& v : x) v = (long long)(g() % 9) - 4; for (auto& v : y) v = (long long)(g() % 9) - 4; int a = (int)(g() % 5) - 2, b = (int)(g() % 7) - 3;
          auto mkD = [](const std::vector<long long>& d) { return StrainRate<TO>(SymmetricDyad<TO>((TO)d[0], (TO)d[1], (TO)d[2], (TO)d[3], (TO)d[4], (TO)d[5]), Unit::Frequency::Hertz); };
          std::vector<long long> xy(6); for (int i = 0; i < 6; i++) xy[i] = a * x[i] + b * y[i];
          auto ev = [&](const std::vector<long long>& d, bool& exact) { auto o = c6(base.Stress(mkD(d)).Value()); std::vector<long long> r; for (auto v : o) { long long q = (long long)v; if ((TO)q != v) exact = false; r.push_back(q); } return r; };
          bool exact = true; auto fx = ev(x, exact), fy = ev(y, exact), fxy = ev(xy, exact);
          printf("{\"e\":\"FluidLinear\",\"model\":\"%s\",\"num\":\"%s\",\"mu\":%d,\"mub\":%d,\"a\":%d,\"b\":%d,\"exact\":%s", mn, NN<TM>::c, mu, which ? 0 : mub, a, b, exact ? "true" : "false"); pl("x", x); pl("y", y); pl("fx", fx); pl("fy", fy); pl("fxy", fxy); printf("}\n"); } } }
}
template <class T> static void one_arg() { CFluid<T> c(DynamicViscosity<T>((T)3, Unit::DynamicViscosity::PascalSecond)); T b = c.BulkDynamicViscosity().Value();
  printf("{\"e\":\"FluidOneArg\",\"num\":\"%s\",\"mub_is_plus_zero\":%d}\n", NN<T>::c, (int)(b == 0 && !std::signbit(b))); }
// ---- C14 on models ----
template <class T> static T rankval(int r) { static const double v[7] = {-2, -1, -0.0, 0.0, 1, 2, 5}; return (T)v[r]; }
static int ordrank(int r) { return r <= 2 ? r : r - 1; }
template <class T> static void model_cmp(std::mt19937_64& g, int n) {
  for (int t = 0; t < n; t++) { int ra[2] = {(int)(g() % 7), (int)(g() % 7)}, rb[2] = {(int)(g() % 7), (int)(g() % 7)}; if (t % 2) { rb[0] = ra[0]; if ((ra[0] == 2 || ra[0] == 3) && (g() & 1)) rb[0] = 5 - ra[0]; }
    auto emit = [&](const char* mn, int lt, int le, int gt, int ge, int eq, int ne, int heq, int len) { printf("{\"e\":\"ModelCmp\",\"model\":\"%s\",\"num\":\"%s\",\"a\":[%d%s", mn, NN<T>::c, ordrank(ra[0]), len > 1 ? "," : ""); if (len > 1) printf("%d", ordrank(ra[1]));
      printf("],\"b\":[%d%s", ordrank(rb[0]), len > 1 ? "," : ""); if (len > 1) printf("%d", ordrank(rb[1])); printf("],\"lt\":%d,\"le\":%d,\"gt\":%d,\"ge\":%d,\"eq\":%d,\"ne\":%d,\"heq\":%d}\n", lt, le, gt, ge, eq, ne, heq); };
    { Solid<T> a(ShearModulus<T>(rankval<T>(ra[0]), PA), LameFirstModulus<T>(rankval<T>(ra[1]), PA)), b(ShearModulus<T>(rankval<T>(rb[0]), PA), LameFirstModulus<T>(rankval<T>(rb[1]), PA));
      emit("elastic", a < b, a <= b, a > b, a >= b, a == b, a != b, std::hash<Solid<T>>()(a) == std::hash<Solid<T>>()(b), 2); }
    { auto U = Unit::DynamicViscosity::PascalSecond; CFluid<T> a(DynamicViscosity<T>(rankval<T>(ra[0]), U), BulkDynamicViscosity<T>(rankval<T>(ra[1]), U)), b(DynamicViscosity<T>(rankval<T>(rb[0]), U), BulkDynamicViscosity<T>(rankval<T>(rb[1]), U));
      emit("compressible", a < b, a <= b, a > b, a >= b, a == b, a != b, std::hash<CFluid<T>>()(a) == std::hash<CFluid<T>>()(b), 2);
      IFluid<T> c(DynamicViscosity<T>(rankval<T>(ra[0]), U)), d(DynamicViscosity<T>(rankval<T>(rb[0]), U));
      emit("incompressible", c < d, c <= d, c > d, c >= d, c == d, c != d, std::hash<IFluid<T>>()(c) == std::hash<IFluid<T>>()(d), 1); } }
  // copies: copy / move construction and copy / move assignment give an object equal to the source (same hash), default construction is well defined
  auto copies = [&](const char* mn, auto a, auto other) { using M = decltype(a); M c1(a); M tmp1(a); M c2(std::move(tmp1)); M c3(other); c3 = a; M tmp2(a); M c4(other); c4 = std::move(tmp2); M def; (void)def;
    bool ok = c1 == a && c2 == a && c3 == a && c4 == a && !(c1 != a) && std::hash<M>()(c1) == std::hash<M>()(a) && std::hash<M>()(c3) == std::hash<M>()(a) && (other == a || c3 != other);
    printf("{\"e\":\"ModelCopy\",\"model\":\"%s\",\"num\":\"%s\",\"ok\":%d}\n", mn, NN<T>::c, (int)ok); };
  { auto U = Unit::DynamicViscosity::PascalSecond;
    copies("elastic", Solid<T>(ShearModulus<T>((T)1.25L, PA), LameFirstModulus<T>((T)0.1L, PA)), Solid<T>(ShearModulus<T>((T)3, PA), LameFirstModulus<T>((T)4, PA)));
    copies("compressible", CFluid<T>(DynamicViscosity<T>((T)0.3L, U), BulkDynamicViscosity<T>((T)7, U)), CFluid<T>(DynamicViscosity<T>((T)2, U), BulkDynamicViscosity<T>((T)1, U)));
    copies("incompressible", IFluid<T>(DynamicViscosity<T>((T)0.3L, U)), IFluid<T>(DynamicViscosity<T>((T)2, U))); }
}
// ---- numeric layer ----
template <class T> static void elastic_real(uint64_t seed, int n) {
  std::mt19937_64 g(seed); std::uniform_real_distribution<double> U(0, 1); const Qd eps = std::numeric_limits<T>::epsilon();
  for (auto& p : PAIRS) { double worst = 0; long cnt = 0, nonfinite = 0;
    for (int t = 0; t < n; t++) { Qd nu = 0.05 + 0.40 * U(g); Qd mu = ldexpq((Qd)(1 + U(g)), (int)(g() % 61) - 30); Qd lam = 2 * mu * nu / (1 - 2 * nu); Qd kappa = 1 / (1 - 2 * nu), scale = fmaxq(mu, fabsq(lam));
      T x = (T)exact_mod(p.a, mu, lam), y = (T)exact_mod(p.b, mu, lam);
      // the inputs were rounded to T: the state they denote exactly is recomputed from them? -> measure against the conditioning-scaled budget instead
      Solid<T> s = build<T>(p.a, p.b, x, y); T gm = s.ShearModulus().Value(), gl = s.LameFirstModulus().Value(); if (!std::isfinite((long double)gm) || !std::isfinite((long double)gl)) { nonfinite++; continue; }
      double e1 = (double)(fabsq((Qd)gm - mu) / scale / eps / kappa), e2 = (double)(fabsq((Qd)gl - lam) / scale / eps / kappa); worst = std::max(worst, std::max(e1, e2));
      for (int m = 0; m < 7; m++) { T v = accessor<T>(s, (Mod)m); Qd w = exact_mod((Mod)m, mu, lam); Qd sc = m == mNu ? (Qd)1 : scale; double e = (double)(fabsq((Qd)v - w) / sc / eps / kappa); worst = std::max(worst, e); } cnt++; }
    printf("{\"e\":\"ElasticRebuild\",\"k1\":\"%s\",\"k2\":\"%s\",\"num\":\"%s\",\"n\":%ld,\"nonfinite\":%ld,\"err_eps_kappa\":%ld}\n", MN[p.a], MN[p.b], NN<T>::c, cnt, nonfinite, (long)std::ceil(std::min(worst, 1e9))); }
  // Strain(Stress(eps)) ~ eps ; StrainRate(Stress(D)) ~ D
  { double worst = 0; long cnt = 0, nonfinite = 0; for (int t = 0; t < n; t++) { Qd nu = 0.05 + 0.40 * U(g); T mu = (T)ldexpq((Qd)(1 + U(g)), (int)(g() % 41) - 20); T lam = (T)(2 * (Qd)mu * nu / (1 - 2 * nu)); double kappa = (double)(1 / (1 - 2 * nu));
      Solid<T> s(ShearModulus<T>(mu, PA), LameFirstModulus<T>(lam, PA)); T e[6]; T big = 0; for (auto& x : e) { x = (T)(U(g) * 2 - 1); big = std::max(big, std::fabs(x)); }
      Strain<T> in(SymmetricDyad<T>(e[0], e[1], e[2], e[3], e[4], e[5])); auto out = c6(s.Strain(s.Stress(in)).Value());
      for (int i = 0; i < 6; i++) { if (!std::isfinite((long double)out[i])) { nonfinite++; continue; } worst = std::max(worst, (double)(std::fabs(out[i] - e[i]) / big / std::numeric_limits<T>::epsilon()) / kappa); } cnt++; }
    printf("{\"e\":\"Compose\",\"model\":\"elastic\",\"num\":\"%s\",\"n\":%ld,\"nonfinite\":%ld,\"err_eps_kappa\":%ld}\n", NN<T>::c, cnt, nonfinite, (long)std::ceil(std::min(worst, 1e9))); }
  for (int which = 0; which < 2; which++) { double worst = 0; long cnt = 0, nonfinite = 0; auto UV = Unit::DynamicViscosity::PascalSecond;
    for (int t = 0; t < n; t++) { T mu = (T)ldexpq((Qd)(1 + U(g)), (int)(g() % 41) - 20); T mub = which ? (T)0 : (T)((Qd)mu * (Qd)(U(g) * 3)); CFluid<T> c(DynamicViscosity<T>(mu, UV), BulkDynamicViscosity<T>(mub, UV)); IFluid<T> ic(DynamicViscosity<T>(mu, UV));
      const ConstitutiveModel& m = which ? (const ConstitutiveModel&)ic : (const ConstitutiveModel&)c; T e[6]; T big = 0; for (auto& x : e) { x = (T)(U(g) * 2 - 1); big = std::max(big, std::fabs(x)); }
      StrainRate<T> in(SymmetricDyad<T>(e[0], e[1], e[2], e[3], e[4], e[5]), Unit::Frequency::Hertz); auto out = c6(m.StrainRate(m.Stress(in)).Value()); double kappa = 1 + 1.5 * (double)(mub / mu);
      for (int i = 0; i < 6; i++) { if (!std::isfinite((long double)out[i])) { nonfinite++; continue; } worst = std::max(worst, (double)(std::fabs(out[i] - e[i]) / big / std::numeric_limits<T>::epsilon()) / kappa); } cnt++; }
    printf("{\"e\":\"Compose\",\"model\":\"%s\",\"num\":\"%s\",\"n\":%ld,\"nonfinite\":%ld,\"err_eps_kappa\":%ld}\n", which ? "incompressible" : "compressible", NN<T>::c, cnt, nonfinite, (long)std::ceil(std::min(worst, 1e9))); }
}
// ---- numeric layer, every (model numeric type, overload numeric type) combination: real-valued tensors and materials with full mantissas;
// reference in __float128 from the STORED parameters; distance in ulps of the OVERLOAD's type at the scale of the largest term (no credit
// for cancellation).  model: 0 elastic, 1 compressible, 2 incompressible; fn: 0 forward (stress), 1 inverse (strain / strain rate).
template <class TO> static double ulps_at(Qd got, Qd want, Qd scale) { if (scale == 0) return got == want ? 0 : 1e18; int e; frexpq(scale, &e); return (double)(fabsq(got - want) / ldexpq((Qd)1, e - std::numeric_limits<TO>::digits)); }
template <class TM, class TO> static void maps_real(uint64_t seed, int n) {
  std::mt19937_64 g(seed * 977 + sizeof(TM) * 31 + sizeof(TO)); std::uniform_real_distribution<double> U(0, 1); auto UV = Unit::DynamicViscosity::PascalSecond;
  auto full = [&](int lo, int hi) { long double m = 1.0L + (long double)(g() >> 11) / (long double)(1ULL << 53) + std::ldexp((long double)(g() & 2047), -64); return std::ldexp(m, lo + (int)(g() % (unsigned)(hi - lo + 1))); };
  for (int model = 0; model < 3; model++) for (int fn = 0; fn < 2; fn++) for (int via = 0; via < 2; via++) { double worst = 0; long cnt = 0, nonfinite = 0; long double wit = 0;
    for (int t = 0; t < n; t++) { TM a = (TM)full(-12, 12); TM b = model == 2 ? (TM)0 : (TM)((long double)a * (0.1L + 3.0L * (long double)U(g)));      // a = mu ; b = lambda or bulk viscosity
      Solid<TM> so(ShearModulus<TM>(a, PA), LameFirstModulus<TM>(b, PA)); CFluid<TM> cf(DynamicViscosity<TM>(a, UV), BulkDynamicViscosity<TM>(b, UV)); IFluid<TM> inf(DynamicViscosity<TM>(a, UV));
      const ConstitutiveModel& base = model == 0 ? (const ConstitutiveModel&)so : model == 1 ? (const ConstitutiveModel&)cf : (const ConstitutiveModel&)inf;
      TO x[6]; int ex = (t % 3 == 1) ? (int)(g() % 111) - 80 : (int)(g() % 21) - 10;   /* also very small tensors (micro-strains and far below): the maps are linear */ for (auto& v : x) v = (TO)(full(ex, ex) * ((g() & 1) ? 1 : -1)); SymmetricDyad<TO> X(x[0], x[1], x[2], x[3], x[4], x[5]);
      std::vector<TO> out; Qd A = (Qd)a, B = (Qd)b; Qd tr = (Qd)x[0] + (Qd)x[3] + (Qd)x[5], atr = fabsq((Qd)x[0]) + fabsq((Qd)x[3]) + fabsq((Qd)x[5]);
      Qd c1, c2;                                                               // result = c1 * X + c2 * tr(X) * I
      if (fn == 0) { c1 = 2 * A; c2 = B; } else { c1 = 1 / (2 * A); c2 = -B / (2 * A * (2 * A + 3 * B)); }
      if (model == 0) { if (fn == 0) { Strain<TO> in(X); out = c6((via ? base.Stress(in) : so.Stress(in)).Value()); } else { Stress<TO> in(X, PA); out = c6((via ? base.Strain(in) : so.Strain(in)).Value()); } }
      else { if (fn == 0) { StrainRate<TO> in(X, Unit::Frequency::Hertz); out = c6((via ? base.Stress(in) : model == 1 ? cf.Stress(in) : inf.Stress(in)).Value()); }
             else { Stress<TO> in(X, PA); out = c6((via ? base.StrainRate(in) : model == 1 ? cf.StrainRate(in) : inf.StrainRate(in)).Value()); } }
      static const int diag[6] = {1, 0, 0, 1, 0, 1};
      for (int i = 0; i < 6; i++) { if (!std::isfinite((long double)out[i])) { nonfinite++; continue; } Qd want = c1 * (Qd)x[i] + (diag[i] ? c2 * tr : (Qd)0), scale = fabsq(c1 * (Qd)x[i]) + (diag[i] ? fabsq(c2) * atr : (Qd)0);
        double u = ulps_at<TO>((Qd)out[i], want, scale); if (u > worst) { worst = u; wit = (long double)x[i]; } } cnt++; }
    printf("{\"e\":\"MapReal\",\"model\":\"%s\",\"fn\":\"%s\",\"num\":\"%s\",\"ov\":\"%s\",\"via\":\"%s\",\"n\":%ld,\"nonfinite\":%ld,\"ulps\":%ld,\"witness\":\"%La\"}\n", model == 0 ? "elastic" : model == 1 ? "compressible" : "incompressible",
           fn ? "inverse" : "forward", NN<TM>::c, NN<TO>::c, via ? "base" : "direct", cnt, nonfinite, (long)std::ceil(std::min(worst, 1e9)), wit); }
}
// ---- beyond the listed properties: GetType and the printed / serialised forms of the three models (their calls are in scope of C20 through the sanitized re-run) ----
static std::string jesc(const std::string& s) { std::string o; char b[8]; for (unsigned char c : s) { if (c == '"' || c == '\\') { o += '\\'; o += (char)c; } else if (c < 0x20) { snprintf(b, 8, "\\u%04x", c); o += b; } else if (c >= 0x80) { if ((c & 0xC0) != 0x80) o += '?'; } else o += (char)c; } return o; }
template <class M, class P1, class P2> static void model_text_one(const char* mn, const char* num, const M& m, const ConstitutiveModel::Type expect, const P1& p1, const P2* p2) {
  const ConstitutiveModel& base = m; std::ostringstream os; os << m; { std::ostringstream ob; ob << base; if (ob.str() != os.str()) os << "<base stream differs>"; } std::string forms[4] = {base.Print(), base.JSON(), base.XML(), base.YAML()}; static const char* FN[4] = {"Print", "JSON", "XML", "YAML"};
  std::string parts1[4] = {p1.Print(), p1.JSON(), p1.XML(), p1.YAML()}; std::string parts2[4]; if (p2) { parts2[0] = p2->Print(); parts2[1] = p2->JSON(); parts2[2] = p2->XML(); parts2[3] = p2->YAML(); }
  std::string abbr(Abbreviation(base.GetType()));
  for (int f = 0; f < 4; f++) { size_t a = forms[f].find(parts1[f]); size_t b = p2 ? forms[f].find(parts2[f], a == std::string::npos ? 0 : a + parts1[f].size()) : 0;
    printf("{\"e\":\"ModelText\",\"model\":\"%s\",\"num\":\"%s\",\"form\":\"%s\",\"type_ok\":%d,\"has_type_label\":%d,\"has_p1\":%d,\"has_p2_after_p1\":%d,\"stream_is_print\":%d,\"text\":\"%s\"}\n", mn, num, FN[f], (int)(base.GetType() == expect && m.GetType() == expect),
           (int)(forms[f].find(f == 0 ? abbr : SnakeCase(abbr)) != std::string::npos), (int)(a != std::string::npos), (int)(b != std::string::npos), (int)(os.str() == forms[0]), jesc(forms[f]).c_str()); }
}
// models owned and destroyed through the abstract base class, as the library's documentation does with std::unique_ptr<const ConstitutiveModel> (sanitized re-run: C20)
template <class T> static void model_owned() { auto UV = Unit::DynamicViscosity::PascalSecond; int ok = 1;
  { std::unique_ptr<const ConstitutiveModel> p = std::make_unique<Solid<T>>(ShearModulus<T>((T)2, PA), LameFirstModulus<T>((T)3, PA)); ok &= p->GetType() == ConstitutiveModel::Type::ElasticIsotropicSolid; }
  { std::unique_ptr<ConstitutiveModel> p = std::make_unique<CFluid<T>>(DynamicViscosity<T>((T)2, UV), BulkDynamicViscosity<T>((T)3, UV)); ok &= p->GetType() == ConstitutiveModel::Type::CompressibleNewtonianFluid; }
  { std::unique_ptr<const ConstitutiveModel> p(new IFluid<T>(DynamicViscosity<T>((T)2, UV))); ok &= p->GetType() == ConstitutiveModel::Type::IncompressibleNewtonianFluid; std::shared_ptr<const ConstitutiveModel> sp = std::move(p); ok &= !sp->Print().empty(); }
  printf("{\"e\":\"ModelCopy\",\"model\":\"owned through the abstract base\",\"num\":\"%s\",\"ok\":%d}\n", NN<T>::c, ok); }
template <class T> static void model_text() { auto UV = Unit::DynamicViscosity::PascalSecond;
  ShearModulus<T> mu((T)1.25L, PA); LameFirstModulus<T> lam((T)-0.001L * 3, PA); Solid<T> so(mu, lam); model_text_one("elastic", NN<T>::c, so, ConstitutiveModel::Type::ElasticIsotropicSolid, mu, &lam);
  DynamicViscosity<T> dv((T)12345.678L, UV); BulkDynamicViscosity<T> bv((T)0.1L, UV); CFluid<T> cf(dv, bv); model_text_one("compressible", NN<T>::c, cf, ConstitutiveModel::Type::CompressibleNewtonianFluid, dv, &bv);
  IFluid<T> inf(dv); model_text_one<IFluid<T>, DynamicViscosity<T>, DynamicViscosity<T>>("incompressible", NN<T>::c, inf, ConstitutiveModel::Type::IncompressibleNewtonianFluid, dv, nullptr); }
template <class TM> static void maps_real_for(uint64_t seed, int n) { maps_real<TM, float>(seed, n); maps_real<TM, double>(seed, n); maps_real<TM, long double>(seed, n); }
template <class TM> static void exact_for_model(std::mt19937_64& g) {
  elastic_maps_exact<TM, float>(g); elastic_maps_exact<TM, double>(g); elastic_maps_exact<TM, long double>(g);
  fluid_maps_exact<TM, float>(g); fluid_maps_exact<TM, double>(g); fluid_maps_exact<TM, long double>(g); }
int main(int argc, char** argv) {
  std::string mode = argc > 1 ? argv[1] : "exact"; uint64_t seed = argc > 2 ? strtoull(argv[2], 0, 10) : 1; int n = argc > 3 ? atoi(argv[3]) : 1000; std::mt19937_64 g(seed);
  if (mode == "exact") { elastic_ctor_exact<float>(); elastic_ctor_exact<double>(); elastic_ctor_exact<long double>();
    exact_for_model<float>(g); exact_for_model<double>(g); exact_for_model<long double>(g); one_arg<float>(); one_arg<double>(); one_arg<long double>(); model_text<float>(); model_text<double>(); model_text<long double>(); model_owned<float>(); model_owned<double>(); model_owned<long double>(); }
  else if (mode == "cmp") { model_cmp<float>(g, n); model_cmp<double>(g, n); model_cmp<long double>(g, n); }
  else { elastic_real<float>(seed, n); elastic_real<double>(seed, n); elastic_real<long double>(seed, n); maps_real_for<float>(seed, n); maps_real_for<double>(seed, n); maps_real_for<long double>(seed, n); }
  return 0;
}
