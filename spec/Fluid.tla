------------------------------- MODULE Fluid -------------------------------
(* C13: Newtonian fluids.  State (mu, mub): dynamic and bulk dynamic viscosity (mub = 0 for the     *)
(* incompressible model and for the compressible model built from a viscosity alone).               *)
(*   Stress(D) = 2 mu D + mub tr(D) I ;  StrainRate inverts it ;  strain arguments are ignored:     *)
(*   zero stress from strain alone, zero strain from stress.  Both maps are linear.                 *)
EXTENDS Integers, Sequences
Tr6(e) == e[1] + e[4] + e[6]
Iso(c) == <<c, 0, 0, c, 0, c>>
ViscousStress(mu, mub, d) == [i \in 1..6 |-> 2 * mu * d[i] + Iso(mub * Tr6(d))[i]]
IsRateOf(mu, mub, sigma, d) == ViscousStress(mu, mub, d) = sigma
Combine(a, x, b, y) == [i \in 1..6 |-> a * x[i] + b * y[i]]
Zero6 == <<0, 0, 0, 0, 0, 0>>
=============================================================================
