// C09: the raw vector / tensor classes implement Cartesian tensor algebra.
//   shapes exact <seed> <sample>   integer operands: exhaustive small grids + random distinct integers; every operation and
//                                  operand-shape combination; results compared natively with an index-notation reference
//                                  interpreter; every disagreement and a seeded sample are emitted for TLC (Trace_Tensor).
//   shapes real <seed> <n>         random real operands, three numeric types, against the reference evaluated in __float128,
//                                  error measured in ulps of the scale Sum|terms|; inverse presence over 2^k rescalings.
#include <array>
#include <cmath>
#include <cstdint>
#include <cstdio>
#include <cstdlib>
#include <cstring>
#include <functional>
#include <optional>
#include <random>
#include <string>
#include <vector>
#include <quadmath.h>

#include "PhQ/Direction.hpp"
#include "PhQ/Dyad.hpp"
#include "PhQ/PlanarDirection.hpp"
#include "PhQ/PlanarVector.hpp"
#include "PhQ/SymmetricDyad.hpp"
#include "PhQ/Vector.hpp"
using namespace PhQ;

template <class T> struct NumName;
template <> struct NumName<float> { static constexpr const char* c = "f"; };
template <> struct NumName<double> { static constexpr const char* c = "d"; };
template <> struct NumName<long double> { static constexpr const char* c = "l"; };

// ---------------- reference interpreter: index notation over a generic scalar S ----------------
template <class S> struct Ref {
  typedef std::vector<S> V;
  static S D(const V& a, int i, int j) { return a[3 * i + j]; }
  static V symembed(const V& s) { return V{s[0], s[1], s[2], s[1], s[3], s[4], s[2], s[4], s[5]}; }
  static V planar(const V& p) { return V{p[0], p[1], S(0)}; }
  static V dot(const V& a, const V& b) { return V{a[0] * b[0] + a[1] * b[1] + a[2] * b[2]}; }
  static V cross(const V& a, const V& b) { return V{a[1] * b[2] - a[2] * b[1], a[2] * b[0] - a[0] * b[2], a[0] * b[1] - a[1] * b[0]}; }
  static V dyadic(const V& a, const V& b) { V o(9); for (int i = 0; i < 3; i++) for (int j = 0; j < 3; j++) o[3 * i + j] = a[i] * b[j]; return o; }
  static V transpose(const V& a) { V o(9); for (int i = 0; i < 3; i++) for (int j = 0; j < 3; j++) o[3 * i + j] = D(a, j, i); return o; }
  static S cof(const V& a, int i, int j) { int i1 = (i + 1) % 3, i2 = (i + 2) % 3, j1 = (j + 1) % 3, j2 = (j + 2) % 3; return D(a, i1, j1) * D(a, i2, j2) - D(a, i1, j2) * D(a, i2, j1); }
  static V cofactors(const V& a) { V o(9); for (int i = 0; i < 3; i++) for (int j = 0; j < 3; j++) o[3 * i + j] = cof(a, i, j); return o; }
  static V adjugate(const V& a) { return transpose(cofactors(a)); }
  static V det(const V& a) { return V{D(a, 0, 0) * cof(a, 0, 0) + D(a, 0, 1) * cof(a, 0, 1) + D(a, 0, 2) * cof(a, 0, 2)}; }
  static V trace(const V& a) { return V{D(a, 0, 0) + D(a, 1, 1) + D(a, 2, 2)}; }
  static V matvec(const V& a, const V& v) { V o(3); for (int i = 0; i < 3; i++) o[i] = D(a, i, 0) * v[0] + D(a, i, 1) * v[1] + D(a, i, 2) * v[2]; return o; }
  static V matmul(const V& a, const V& b) { V o(9); for (int i = 0; i < 3; i++) for (int j = 0; j < 3; j++) o[3 * i + j] = D(a, i, 0) * D(b, 0, j) + D(a, i, 1) * D(b, 1, j) + D(a, i, 2) * D(b, 2, j); return o; }
  static V magsq(const V& a) { S s = S(0); for (auto& x : a) s = s + x * x; return V{s}; }
  static V sym6(const V& a) { return V{a[0], a[1], a[2], a[4], a[5], a[8]}; }
  static V scale(const V& a, const S& k) { V o; for (auto& x : a) o.push_back(x * k); return o; }
};
// scalar carrying value and magnitude sum (for error scales)
struct Tr { __float128 v, m; Tr() : v(0), m(0) {} Tr(int x) : v(x), m(x < 0 ? -x : x) {} Tr(__float128 x) : v(x), m(fabsq(x)) {} Tr(__float128 x, __float128 y) : v(x), m(y) {} };
inline bool operator==(const Tr& a, int z) { return a.v == z; }
inline Tr operator+(const Tr& a, const Tr& b) { return Tr(a.v + b.v, a.m + b.m); }
inline Tr operator-(const Tr& a, const Tr& b) { return Tr(a.v - b.v, a.m + b.m); }
inline Tr operator*(const Tr& a, const Tr& b) { return Tr(a.v * b.v, a.m * b.m); }

// ---------------- implementation adapters ----------------
template <class T> std::vector<T> C(const PlanarVector<T>& v) { auto a = v.x_y(); return {a[0], a[1]}; }
template <class T> std::vector<T> C(const Vector<T>& v) { auto a = v.x_y_z(); return {a[0], a[1], a[2]}; }
template <class T> std::vector<T> C(const SymmetricDyad<T>& v) { auto a = v.xx_xy_xz_yy_yz_zz(); return std::vector<T>(a.begin(), a.end()); }
template <class T> std::vector<T> C(const Dyad<T>& v) { auto a = v.xx_xy_xz_yx_yy_yz_zx_zy_zz(); return std::vector<T>(a.begin(), a.end()); }
template <class T> std::vector<T> C(const T& v) { return {v}; }
template <class T> PlanarVector<T> PV(const std::vector<T>& c) { return PlanarVector<T>(c[0], c[1]); }
template <class T> Vector<T> V3(const std::vector<T>& c) { return Vector<T>(c[0], c[1], c[2]); }
template <class T> SymmetricDyad<T> SD(const std::vector<T>& c) { return SymmetricDyad<T>(c[0], c[1], c[2], c[3], c[4], c[5]); }
template <class T> Dyad<T> DY(const std::vector<T>& c) { return Dyad<T>(c[0], c[1], c[2], c[3], c[4], c[5], c[6], c[7], c[8]); }
template <class T> Direction<T> DIR(const std::vector<T>& c) { return Direction<T>(c[0], c[1], c[2]); }
template <class T> PlanarDirection<T> PDIR(const std::vector<T>& c) { return PlanarDirection<T>(c[0], c[1]); }

// one operation: name, operand sizes, implementation on T, reference on generic S
template <class T> struct Op {
  const char* name; int na, nb; bool b_is_axis;   // b is a (planar) direction: axis-aligned unit vectors only
  std::function<std::vector<T>(const std::vector<T>&, const std::vector<T>&)> impl;
  std::function<std::vector<long long>(const std::vector<long long>&, const std::vector<long long>&)> refi;
  std::function<std::vector<Tr>(const std::vector<Tr>&, const std::vector<Tr>&)> refr;
};
#define REF2(EXPR) [](const std::vector<long long>& a, const std::vector<long long>& b) { typedef Ref<long long> R; (void)b; return EXPR; }, \
                   [](const std::vector<Tr>& a, const std::vector<Tr>& b) { typedef Ref<Tr> R; (void)b; return EXPR; }
template <class T> std::vector<Op<T>> ops() {
  typedef std::vector<T> Vv;
  std::vector<Op<T>> o;
  o.push_back({"pv_magsq", 2, 0, false, [](const Vv& a, const Vv&) { return C(PV(a).MagnitudeSquared()); }, REF2(R::magsq(a))});
  o.push_back({"pv_embed", 2, 0, false, [](const Vv& a, const Vv&) { return C(Vector<T>(PV(a))); }, REF2(R::planar(a))});
  o.push_back({"v_project", 3, 0, false, [](const Vv& a, const Vv&) { return C(PlanarVector<T>(V3(a))); }, REF2((std::vector<std::decay_t<decltype(a[0])>>{a[0], a[1]}))});
  o.push_back({"pv_dot", 2, 2, false, [](const Vv& a, const Vv& b) { return C(PV(a).Dot(PV(b))); }, REF2(R::dot(R::planar(a), R::planar(b)))});
  o.push_back({"pv_cross", 2, 2, false, [](const Vv& a, const Vv& b) { return C(PV(a).Cross(PV(b))); }, REF2(R::cross(R::planar(a), R::planar(b)))});
  o.push_back({"pv_dyadic", 2, 2, false, [](const Vv& a, const Vv& b) { return C(PV(a).Dyadic(PV(b))); }, REF2(R::dyadic(R::planar(a), R::planar(b)))});
  o.push_back({"pv_dot_pdir", 2, 2, true, [](const Vv& a, const Vv& b) { return C(PV(a).Dot(PDIR(b))); }, REF2(R::dot(R::planar(a), R::planar(b)))});
  o.push_back({"pv_cross_pdir", 2, 2, true, [](const Vv& a, const Vv& b) { return C(PV(a).Cross(PDIR(b))); }, REF2(R::cross(R::planar(a), R::planar(b)))});
  o.push_back({"pv_dyadic_pdir", 2, 2, true, [](const Vv& a, const Vv& b) { return C(PV(a).Dyadic(PDIR(b))); }, REF2(R::dyadic(R::planar(a), R::planar(b)))});
  o.push_back({"v_magsq", 3, 0, false, [](const Vv& a, const Vv&) { return C(V3(a).MagnitudeSquared()); }, REF2(R::magsq(a))});
  o.push_back({"v_dot", 3, 3, false, [](const Vv& a, const Vv& b) { return C(V3(a).Dot(V3(b))); }, REF2(R::dot(a, b))});
  o.push_back({"v_cross", 3, 3, false, [](const Vv& a, const Vv& b) { return C(V3(a).Cross(V3(b))); }, REF2(R::cross(a, b))});
  o.push_back({"v_dyadic", 3, 3, false, [](const Vv& a, const Vv& b) { return C(V3(a).Dyadic(V3(b))); }, REF2(R::dyadic(a, b))});
  o.push_back({"v_dot_dir", 3, 3, true, [](const Vv& a, const Vv& b) { return C(V3(a).Dot(DIR(b))); }, REF2(R::dot(a, b))});
  o.push_back({"v_cross_dir", 3, 3, true, [](const Vv& a, const Vv& b) { return C(V3(a).Cross(DIR(b))); }, REF2(R::cross(a, b))});
  o.push_back({"v_dyadic_dir", 3, 3, true, [](const Vv& a, const Vv& b) { return C(V3(a).Dyadic(DIR(b))); }, REF2(R::dyadic(a, b))});
  o.push_back({"v_from_magnitude_direction", 1, 3, true, [](const Vv& a, const Vv& b) { return C(Vector<T>(a[0], DIR(b))); }, REF2((std::vector<std::decay_t<decltype(a[0])>>{a[0] * b[0], a[0] * b[1], a[0] * b[2]}))});
  o.push_back({"pv_from_magnitude_direction", 1, 2, true, [](const Vv& a, const Vv& b) { return C(PlanarVector<T>(a[0], PDIR(b))); }, REF2((std::vector<std::decay_t<decltype(a[0])>>{a[0] * b[0], a[0] * b[1]}))});
  o.push_back({"sd_trace", 6, 0, false, [](const Vv& a, const Vv&) { return C(SD(a).Trace()); }, REF2(R::trace(R::symembed(a)))});
  o.push_back({"sd_det", 6, 0, false, [](const Vv& a, const Vv&) { return C(SD(a).Determinant()); }, REF2(R::det(R::symembed(a)))});
  o.push_back({"sd_cof", 6, 0, false, [](const Vv& a, const Vv&) { return C(SD(a).Cofactors()); }, REF2(R::sym6(R::cofactors(R::symembed(a))))});
  o.push_back({"sd_adj", 6, 0, false, [](const Vv& a, const Vv&) { return C(SD(a).Adjugate()); }, REF2(R::sym6(R::adjugate(R::symembed(a))))});
  o.push_back({"sd_embed", 6, 0, false, [](const Vv& a, const Vv&) { return C(Dyad<T>(SD(a))); }, REF2(R::symembed(a))});
  o.push_back({"d_trace", 9, 0, false, [](const Vv& a, const Vv&) { return C(DY(a).Trace()); }, REF2(R::trace(a))});
  o.push_back({"d_det", 9, 0, false, [](const Vv& a, const Vv&) { return C(DY(a).Determinant()); }, REF2(R::det(a))});
  o.push_back({"d_transpose", 9, 0, false, [](const Vv& a, const Vv&) { return C(DY(a).Transpose()); }, REF2(R::transpose(a))});
  o.push_back({"d_cof", 9, 0, false, [](const Vv& a, const Vv&) { return C(DY(a).Cofactors()); }, REF2(R::cofactors(a))});
  o.push_back({"d_adj", 9, 0, false, [](const Vv& a, const Vv&) { return C(DY(a).Adjugate()); }, REF2(R::adjugate(a))});
  o.push_back({"sd_mul_pv", 6, 2, false, [](const Vv& a, const Vv& b) { return C(SD(a) * PV(b)); }, REF2(R::matvec(R::symembed(a), R::planar(b)))});
  o.push_back({"sd_mul_v", 6, 3, false, [](const Vv& a, const Vv& b) { return C(SD(a) * V3(b)); }, REF2(R::matvec(R::symembed(a), b))});
  o.push_back({"sd_mul_sd", 6, 6, false, [](const Vv& a, const Vv& b) { return C(SD(a) * SD(b)); }, REF2(R::matmul(R::symembed(a), R::symembed(b)))});
  o.push_back({"sd_mul_d", 6, 9, false, [](const Vv& a, const Vv& b) { return C(SD(a) * DY(b)); }, REF2(R::matmul(R::symembed(a), b))});
  o.push_back({"d_mul_pv", 9, 2, false, [](const Vv& a, const Vv& b) { return C(DY(a) * PV(b)); }, REF2(R::matvec(a, R::planar(b)))});
  o.push_back({"d_mul_v", 9, 3, false, [](const Vv& a, const Vv& b) { return C(DY(a) * V3(b)); }, REF2(R::matvec(a, b))});
  o.push_back({"d_mul_sd", 9, 6, false, [](const Vv& a, const Vv& b) { return C(DY(a) * SD(b)); }, REF2(R::matmul(a, R::symembed(b)))});
  o.push_back({"d_mul_d", 9, 9, false, [](const Vv& a, const Vv& b) { return C(DY(a) * DY(b)); }, REF2(R::matmul(a, b))});
  o.push_back({"sd_mul_dir", 6, 3, true, [](const Vv& a, const Vv& b) { return C(SD(a) * DIR(b)); }, REF2(R::matvec(R::symembed(a), b))});
  o.push_back({"d_mul_dir", 9, 3, true, [](const Vv& a, const Vv& b) { return C(DY(a) * DIR(b)); }, REF2(R::matvec(a, b))});
  o.push_back({"sd_mul_pdir", 6, 2, true, [](const Vv& a, const Vv& b) { return C(SD(a) * PDIR(b)); }, REF2(R::matvec(R::symembed(a), R::planar(b)))});
  o.push_back({"d_mul_pdir", 9, 2, true, [](const Vv& a, const Vv& b) { return C(DY(a) * PDIR(b)); }, REF2(R::matvec(a, R::planar(b)))});
  // the direction on the LEFT (operand b of the event is the axis-aligned direction, a the vector): Direction.Cross/Dyadic(Vector), and two directions (the second is b rotated)
  o.push_back({"dir_cross_v", 3, 3, true, [](const Vv& a, const Vv& b) { return C(DIR(b).Cross(V3(a))); }, REF2(R::cross(b, a))});
  o.push_back({"dir_dyadic_v", 3, 3, true, [](const Vv& a, const Vv& b) { return C(DIR(b).Dyadic(V3(a))); }, REF2(R::dyadic(b, a))});
  o.push_back({"dir_dyadic_dir", 3, 3, true, [](const Vv&, const Vv& b) { return C(DIR(b).Dyadic(Direction<T>(b[1], b[2], b[0]))); }, REF2(R::dyadic(b, (std::vector<std::decay_t<decltype(b[0])>>{b[1], b[2], b[0]})))});
  o.push_back({"pdir_cross_pv", 2, 2, true, [](const Vv& a, const Vv& b) { return C(PDIR(b).Cross(PV(a))); }, REF2(R::cross(R::planar(b), R::planar(a)))});
  o.push_back({"pdir_dyadic_pv", 2, 2, true, [](const Vv& a, const Vv& b) { return C(PDIR(b).Dyadic(PV(a))); }, REF2(R::dyadic(R::planar(b), R::planar(a)))});
  o.push_back({"pdir_dyadic_pdir", 2, 2, true, [](const Vv&, const Vv& b) { return C(PDIR(b).Dyadic(PlanarDirection<T>(b[1], b[0]))); }, REF2(R::dyadic(R::planar(b), R::planar(std::vector<std::decay_t<decltype(b[0])>>{b[1], b[0]})))});
  o.push_back({"sd_transpose", 6, 0, false, [](const Vv& a, const Vv&) { return C(SD(a).Transpose()); }, REF2(a)});
  // scaling: shape * number, number * shape, shape / number and the compound forms, with the number in the shape's own type and as an int
  // (operand b is the number k, 3 when the grid gives 0; the division forms divide k * a by k and must give back a exactly)
#define KK(b) ((b)[0] == 0 ? (decltype((b)[0]))3 : (b)[0])
#define SCALE_OPS(P, MK, NC) \
  o.push_back({P "_scale", NC, 1, false, [](const Vv& a, const Vv& b) { return C(MK(a) * KK(b)); }, REF2(R::scale(a, KK(b)))}); \
  o.push_back({P "_scale_left", NC, 1, false, [](const Vv& a, const Vv& b) { return C(KK(b) * MK(a)); }, REF2(R::scale(a, KK(b)))}); \
  o.push_back({P "_scale_int", NC, 1, false, [](const Vv& a, const Vv& b) { return C(MK(a) * (int)KK(b)); }, REF2(R::scale(a, KK(b)))}); \
  o.push_back({P "_muleq", NC, 1, false, [](const Vv& a, const Vv& b) { auto t = MK(a); t *= KK(b); return C(t); }, REF2(R::scale(a, KK(b)))}); \
  o.push_back({P "_div", NC, 1, false, [](const Vv& a, const Vv& b) { return C((MK(a) * KK(b)) / KK(b)); }, REF2(a)}); \
  o.push_back({P "_div_int", NC, 1, false, [](const Vv& a, const Vv& b) { return C((MK(a) * KK(b)) / (int)KK(b)); }, REF2(a)}); \
  o.push_back({P "_diveq", NC, 1, false, [](const Vv& a, const Vv& b) { auto t = MK(a) * KK(b); t /= KK(b); return C(t); }, REF2(a)}); \
  o.push_back({P "_diveq_int", NC, 1, false, [](const Vv& a, const Vv& b) { auto t = MK(a) * KK(b); t /= (int)KK(b); return C(t); }, REF2(a)});
  SCALE_OPS("pv", PV, 2) SCALE_OPS("v", V3, 3) SCALE_OPS("sd", SD, 6) SCALE_OPS("d", DY, 9)
  return o;
}

static long n_checked = 0, n_mismatch = 0, n_emitted = 0;
static void pj(const char* k, const std::vector<long long>& v) { printf(",\"%s\":[", k); for (size_t i = 0; i < v.size(); i++) printf("%s%lld", i ? "," : "", v[i]); printf("]"); }
template <class T> static void exact_case(const Op<T>& op, const std::vector<long long>& a, const std::vector<long long>& b, bool sample) {
  std::vector<T> ta(a.begin(), a.end()), tb(b.begin(), b.end());
  std::vector<T> got = op.impl(ta, tb); std::vector<long long> want = op.refi(a, b);
  bool ok = got.size() == want.size(); std::vector<long long> gi; bool integral = true;
  for (size_t i = 0; i < got.size(); i++) { long long r = (long long)got[i]; if ((T)r != got[i]) integral = false; gi.push_back(r); if (ok && !(got[i] == (T)want[i])) ok = false; }
  n_checked++; if (!ok) n_mismatch++;
  if ((!ok && n_mismatch <= 300) || sample) { printf("{\"e\":\"T\",\"op\":\"%s\",\"num\":\"%s\",\"integral\":%s", op.name, NumName<T>::c, integral ? "true" : "false"); pj("a", a); pj("b", b); pj("out", gi); printf("}\n"); n_emitted++; }
}
// inverse: presence iff det != 0 ; out * det = adjugate (exact when det is a power of two, all values small integers)
template <class T> static void inverse_case(bool sym, const std::vector<long long>& a, bool sample) {
  std::vector<T> ta(a.begin(), a.end()); std::vector<long long> full = sym ? Ref<long long>::symembed(a) : a;
  long long det = Ref<long long>::det(full)[0]; bool present; std::vector<T> inv;
  if (sym) { auto o = SD(ta).Inverse(); present = o.has_value(); if (present) inv = C(*o); } else { auto o = DY(ta).Inverse(); present = o.has_value(); if (present) inv = C(*o); }
  bool pow2 = det != 0 && ((det < 0 ? -det : det) & ((det < 0 ? -det : det) - 1)) == 0;
  std::vector<long long> scaled; bool ok = present == (det != 0);
  if (present && pow2) { std::vector<long long> adj = Ref<long long>::adjugate(full); if (sym) adj = Ref<long long>::sym6(adj);
    for (size_t i = 0; i < inv.size(); i++) { T s = inv[i] * (T)det; scaled.push_back((long long)s); if (!(s == (T)adj[i])) ok = false; } }
  n_checked++; if (!ok) n_mismatch++;
  if ((!ok && n_mismatch <= 300) || sample) { printf("{\"e\":\"Inv\",\"shape\":\"%s\",\"num\":\"%s\",\"present\":%d,\"pow2\":%d", sym ? "sd" : "d", NumName<T>::c, (int)present, (int)(present && pow2)); pj("a", a); pj("scaled", scaled); printf("}\n"); n_emitted++; }
}
template <class T> static void exact_all(uint64_t seed, long sample) {
  std::mt19937_64 g(seed); auto os = ops<T>();
  auto grid = [&](int n, long k) { std::vector<long long> v(n); for (int i = 0; i < n; i++) { v[i] = (k % 3) - 1; k /= 3; } return v; };
  auto pw = [](int n) { long r = 1; for (int i = 0; i < n; i++) r *= 3; return r; };
  auto rnd = [&](int n) { std::vector<long long> v(n); std::vector<int> pool; for (int i = 1; i <= 9; i++) pool.push_back(i); std::shuffle(pool.begin(), pool.end(), g);
                          for (int i = 0; i < n; i++) v[i] = pool[i % 9] * ((g() & 1) ? 1 : -1); return v; };
  auto axis = [&](int n) { std::vector<long long> v(n, 0); v[g() % n] = (g() & 1) ? 1 : -1; return v; };
  std::uniform_real_distribution<double> U(0, 1);
  for (auto& op : os) {
    long total = pw(op.na) * (op.nb && !op.b_is_axis && op.na + op.nb <= 6 ? pw(op.nb) : 1);
    double pr = std::min(1.0, (double)sample / (double)(os.size() * 3) / (double)std::max(1L, total) * 0.5);
    if (op.nb == 0) { for (long k = 0; k < pw(op.na); k++) exact_case(op, grid(op.na, k), {}, U(g) < pr); }       // exhaustive {-1,0,1} grid
    else if (!op.b_is_axis && op.na + op.nb <= 6) { for (long k = 0; k < pw(op.na); k++) for (long j = 0; j < pw(op.nb); j++) exact_case(op, grid(op.na, k), grid(op.nb, j), U(g) < pr); }
    int nr = 400; for (int t = 0; t < nr; t++) exact_case(op, rnd(op.na), op.nb ? (op.b_is_axis ? axis(op.nb) : rnd(op.nb)) : std::vector<long long>{}, t < (int)(sample / (os.size() * 3) / 2) + 2);
  }
  for (long k = 0; k < pw(6); k++) inverse_case<T>(true, grid(6, k), U(g) < 0.03);
  for (long k = 0; k < pw(9); k++) inverse_case<T>(false, grid(9, k), U(g) < 0.002);
  for (int t = 0; t < 2000; t++) { inverse_case<T>(true, rnd(6), t < 20); inverse_case<T>(false, rnd(9), t < 20); }
}

// ---------------- real layer ----------------
template <class T> static double ulps_scaled(T got, __float128 want, __float128 scale) {
  if (!std::isfinite((long double)got)) return 1e18; __float128 s = fabsq(scale); if (s < (__float128)std::numeric_limits<T>::min()) s = std::numeric_limits<T>::min();
  int e; frexpq(s, &e); return (double)(fabsq((__float128)got - want) / ldexpq((__float128)1, e - std::numeric_limits<T>::digits)); }
template <class T> static void real_all(uint64_t seed, int n) {
  std::mt19937_64 g(seed); auto os = ops<T>();
  auto rv = [&](int k, int ex) { std::vector<T> v(k); for (auto& x : v) { T m = (T)(1.0L + (long double)(g() >> 11) / (long double)(1ULL << 53)); x = std::ldexp(m, ex + (int)(g() % 5) - 2) * ((g() & 1) ? 1 : -1); } return v; };
  for (auto& op : os) { double worst = 0; long cnt = 0; long double wit = 0; { std::string nm(op.name); if (nm.size() > 4 && nm.compare(nm.size() - 4, 4, "_int") == 0) continue; }   // a number passed as int is meaningful on integer inputs only
    for (int t = 0; t < n; t++) { int ex = (int)(g() % 41) - 20; std::vector<T> a = rv(op.na, ex), b;
      if (op.nb) { if (op.b_is_axis) { b.assign(op.nb, 0); b[g() % op.nb] = (g() & 1) ? 1 : -1; } else b = rv(op.nb, (int)(g() % 41) - 20); }
      std::vector<T> got = op.impl(a, b); std::vector<Tr> ra, rb; for (T x : a) ra.push_back(Tr((__float128)x)); for (T x : b) rb.push_back(Tr((__float128)x));
      std::vector<Tr> want = op.refr(ra, rb);
      for (size_t i = 0; i < got.size() && i < want.size(); i++) { double u = ulps_scaled<T>(got[i], want[i].v, want[i].m); cnt++; if (u > worst) { worst = u; wit = (long double)a[0]; } }
      if (got.size() != want.size()) worst = 1e18; }
    printf("{\"e\":\"TReal\",\"op\":\"%s\",\"num\":\"%s\",\"n\":%ld,\"ulps\":%ld,\"witness\":\"%La\"}\n", op.name, NumName<T>::c, cnt, worst > 1e9 ? 1000000000L : (long)std::ceil(worst), wit); }
  // magnitude = Euclidean norm
  { double worst = 0; long cnt = 0; for (int t = 0; t < n; t++) { auto a = rv(3, (int)(g() % 81) - 40); T m = V3(a).Magnitude(); __float128 w = sqrtq((__float128)a[0] * a[0] + (__float128)a[1] * a[1] + (__float128)a[2] * a[2]); double u = ulps_scaled<T>(m, w, w); cnt++; if (u > worst) worst = u;
      auto p = rv(2, (int)(g() % 81) - 40); T mp = PV(p).Magnitude(); __float128 wp = sqrtq((__float128)p[0] * p[0] + (__float128)p[1] * p[1]); u = ulps_scaled<T>(mp, wp, wp); if (u > worst) worst = u; }
    printf("{\"e\":\"TReal\",\"op\":\"magnitude\",\"num\":\"%s\",\"n\":%ld,\"ulps\":%ld,\"witness\":\"0x0p+0\"}\n", NumName<T>::c, cnt, (long)std::ceil(worst)); }
  // inverse: present for every non-singular tensor at every scale; A^-1 A ~ I for well-conditioned tensors
  for (int sym = 0; sym < 2; sym++) {
    const int kmax = std::numeric_limits<T>::max_exponent / 4;
    long absent = 0, cnt = 0; double worst_res = 0, worst_inv = 0; int kwit = 0;
    for (int t = 0; t < n; t++) { int k = (int)(g() % (2 * kmax + 1)) - kmax; T sc = std::ldexp((T)1, k);
      std::vector<T> a(sym ? 6 : 9); for (auto& x : a) x = (T)((double)(g() % 2001) / 1000.0 - 1.0);
      if (sym) { a[0] += 3; a[3] += 3; a[5] += 3; } else { a[0] += 3; a[4] += 3; a[8] += 3; }   // diagonally dominant: condition number < 10
      for (auto& x : a) x *= sc;
      std::vector<T> inv; bool present;
      if (sym) { auto o = SD(a).Inverse(); present = o.has_value(); if (present) inv = C(Dyad<T>(*o)); } else { auto o = DY(a).Inverse(); present = o.has_value(); if (present) inv = C(*o); }
      cnt++; if (!present) { if (!absent) kwit = k; absent++; continue; }
      std::vector<__float128> A(9); { std::vector<T> full = sym ? C(Dyad<T>(SD(a))) : a; for (int i = 0; i < 9; i++) A[i] = full[i]; }
      for (int i = 0; i < 3; i++) for (int j = 0; j < 3; j++) { __float128 s = 0; for (int m = 0; m < 3; m++) s += (__float128)inv[3 * i + m] * A[3 * m + j]; double r = (double)(fabsq(s - (i == j ? 1 : 0)) / (__float128)std::numeric_limits<T>::epsilon()); if (r > worst_res) worst_res = r; }
    }
    printf("{\"e\":\"InvReal\",\"shape\":\"%s\",\"num\":\"%s\",\"n\":%ld,\"absent\":%ld,\"k_witness\":%d,\"residual_eps\":%ld}\n", sym ? "sd" : "d", NumName<T>::c, cnt, absent, kwit, (long)std::ceil(worst_res)); (void)worst_inv; }
  // exactly singular tensors (a zero row: the determinant is exactly zero in any evaluation order) have no inverse
  { long present = 0, cnt = 0; for (int t = 0; t < n; t++) { std::vector<T> a = rv(9, (int)(g() % 41) - 20); { int r0 = (int)(g() % 3); for (int j = 0; j < 3; j++) a[3 * r0 + j] = 0; } cnt++; if (DY(a).Inverse().has_value()) present++; }
    printf("{\"e\":\"InvSingular\",\"shape\":\"d\",\"num\":\"%s\",\"n\":%ld,\"present\":%ld}\n", NumName<T>::c, cnt, present); }
}
int main(int argc, char** argv) {
  std::string mode = argc > 1 ? argv[1] : "exact"; uint64_t seed = argc > 2 ? strtoull(argv[2], 0, 10) : 1; long n = argc > 3 ? atol(argv[3]) : 1000;
  if (mode == "exact") { exact_all<float>(seed, n); exact_all<double>(seed + 1, n); exact_all<long double>(seed + 2, n);
    printf("{\"e\":\"TSummary\",\"checked\":%ld,\"ref_mismatch\":%ld,\"emitted\":%ld}\n", n_checked, n_mismatch, n_emitted); }
  else { real_all<float>(seed, (int)n); real_all<double>(seed, (int)n); real_all<long double>(seed, (int)n); }
  return 0;
}
