------------------------------- MODULE Slots -------------------------------
(* The component store of the four raw shapes (planar vector, vector, symmetric dyad, dyad) that   *)
(* every vector- and tensor-valued quantity carries as its value: named Cartesian components are   *)
(* views of numbered slots.  A symmetric dyad stores six numbers; its nine names alias them         *)
(* (yx = xy, zx = xz, zy = yz).  A dyad stores nine, row-major.  State: the slot tuple.  Actions:   *)
(* the named setters, the named mutable references, the whole-tuple setters (array form, component  *)
(* list form, mutable array reference, assignment from an array), Zero(), and - for the dyad -      *)
(* construction / assignment from a symmetric dyad.  Observations: named reads, IsSymmetric.        *)
(* Hand-written from the documentation comments of the four headers, not from their bodies.         *)
EXTENDS Integers, Sequences, FiniteSets

Shapes == {"PlanarVector", "Vector", "SymmetricDyad", "Dyad"}
NSlots(sh) == CASE sh = "PlanarVector" -> 2 [] sh = "Vector" -> 3 [] sh = "SymmetricDyad" -> 6 [] sh = "Dyad" -> 9
Names(sh) == CASE sh = "PlanarVector" -> {"x", "y"}
               [] sh = "Vector" -> {"x", "y", "z"}
               [] OTHER -> {"xx", "xy", "xz", "yx", "yy", "yz", "zx", "zy", "zz"}
Axis(c) == CASE c = "x" -> 1 [] c = "y" -> 2 [] c = "z" -> 3
(* row i, column j of a name such as "yz" (TLC strings are atomic, so the table is written out) *)
RowCol == [xx |-> <<1, 1>>, xy |-> <<1, 2>>, xz |-> <<1, 3>>, yx |-> <<2, 1>>, yy |-> <<2, 2>>, yz |-> <<2, 3>>,
           zx |-> <<3, 1>>, zy |-> <<3, 2>>, zz |-> <<3, 3>>]
Row(name) == RowCol[name][1]
Col(name) == RowCol[name][2]
(* slot of the upper-triangle entry (i <= j) of a symmetric dyad stored as xx xy xz yy yz zz *)
UpperSlot(i, j) == CASE i = 1 -> j [] i = 2 -> j + 2 [] i = 3 -> 6
SlotOf(sh, name) ==
  CASE sh \in {"PlanarVector", "Vector"} -> Axis(name)
    [] sh = "Dyad" -> 3 * (Row(name) - 1) + Col(name)
    [] sh = "SymmetricDyad" -> LET i == Row(name)  j == Col(name) IN IF i <= j THEN UpperSlot(i, j) ELSE UpperSlot(j, i)
Zeros(sh) == [i \in 1..NSlots(sh) |-> 0]
(* the dyad with the same components as a symmetric dyad *)
EmbedSym(t) == <<t[1], t[2], t[3], t[2], t[4], t[5], t[3], t[5], t[6]>>
IsSymmetricDyad(c) == c[2] = c[4] /\ c[3] = c[7] /\ c[6] = c[8]

(* ---- the transition relation, as functions of the pre-state (used by MC_Slots and Trace_Slots) ---- *)
AfterSetOne(sh, c, name, v) == [c EXCEPT ![SlotOf(sh, name)] = v]
AfterSetAll(sh, c, t)       == t
ReadOne(sh, c, name)        == c[SlotOf(sh, name)]

(* properties of the design, checked by TLC in MC_Slots on a small value set *)
(* writing a name and reading it back returns the value; reading any other name is unchanged unless it aliases the same slot *)
WriteReadOK(sh, c, n1, v, n2) ==
  LET c2 == AfterSetOne(sh, c, n1, v) IN
  ReadOne(sh, c2, n2) = IF SlotOf(sh, n2) = SlotOf(sh, n1) THEN v ELSE ReadOne(sh, c, n2)
(* names alias exactly when the shape is symmetric and the names are transposes of each other *)
AliasOK(sh, n1, n2) == (SlotOf(sh, n1) = SlotOf(sh, n2)) <=>
                       (n1 = n2 \/ (sh = "SymmetricDyad" /\ Row(n1) = Col(n2) /\ Col(n1) = Row(n2)))
(* every slot has a name *)
OntoOK(sh) == {SlotOf(sh, n) : n \in Names(sh)} = 1..NSlots(sh)
=============================================================================
