SPECIFICATION Spec
INVARIANTS Tri Trans Derived FirstDifference
CHECK_DEADLOCK FALSE
