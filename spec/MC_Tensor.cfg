SPECIFICATION Spec
CONSTANTS ScopeA = 1  ScopeFull = 4
INVARIANTS AdjugateLaw DetTranspose CrossAnti DyadicTrace MatVecDyadic SymRoundTrip TransposeMul
CONSTRAINT Scope
CHECK_DEADLOCK FALSE
