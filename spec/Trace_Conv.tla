------------------------------- MODULE Trace_Conv -------------------------------
(* Layer B of C01 (and the static-vs-run-time clause of C02): abstract conversion events.         *)
(* The harness converts many concrete values per (unit type, from, to, numeric type, entry point) *)
(* and measures the distance, in units in the last place, to the exact affine map                 *)
(*      x |-> (x + off_from) * mag_from / mag_to - off_to                                          *)
(* whose magnitudes and offsets are the ones Trace_Units derived from the unit symbols            *)
(* (unit_table).  One event per class carries the worst distance; this module is the acceptance   *)
(* rule: budget, exact zero, exact sign symmetry, finiteness, agreement of the compile-time and   *)
(* run-time entry points, agreement (two neighbouring numbers) of every sequence overload (std::array,         *)
(* std::vector, planar vector, vector, symmetric dyad, dyad; by value and in place) with the scalar overload, and - as *)
(* vacuity guards - which value classes and units were exercised.                                  *)
EXTENDS Integers, Sequences, FiniteSets, Json, IOUtils, TLC

CONSTANTS BudgetMul,      \* ulps allowed for a purely multiplicative pair (<= 2*(k1+k2) roundings)
          BudgetAffine,   \* ulps (of the largest intermediate) allowed when an offset is involved
          BudgetEntry     \* ulps allowed between the compile-time and the run-time entry point
Events == ndJsonDeserialize(IOEnv.TRACE)
Units  == JsonDeserialize(IOEnv.UNITS)        \* type |-> sequence of unit names (from Trace_Units)
Std    == JsonDeserialize(IOEnv.STD)          \* type |-> standard unit

VARIABLES l, bad, toStd, fromStd, pairs
vars == <<l, bad, toStd, fromStd, pairs>>
Init == l = 1 /\ bad = <<>> /\ toStd = {} /\ fromStd = {} /\ pairs = 0
SeqSet(s) == {s[i] : i \in 1..Len(s)}
(* value classes: bit 1 zero, 2 tiny, 4 small, 8 around one, 32 large, 64 huge, 128 negative, 256 positive *)
HasBit(m, b) == (m \div b) % 2 = 1
ClassesOK(m) == HasBit(m, 1) /\ HasBit(m, 8) /\ HasBit(m, 128) /\ HasBit(m, 256)
                /\ Cardinality({b \in {2, 4, 32, 64} : HasBit(m, b)}) >= 2
V(cls, r) == [cls |-> cls, type |-> r.type, from |-> r.from, to |-> r.to, num |-> r.num, entry |-> r.entry,
              ulps |-> r.ulps, witness |-> r.witness]
TConv == LET r == Events[l] IN
  /\ l <= Len(Events) /\ r.e = "Conv" /\ l' = l + 1
  /\ r.type \in DOMAIN Units /\ r.from \in SeqSet(Units[r.type]) /\ r.to \in SeqSet(Units[r.type])
  /\ r.num \in {"f", "d", "l"} /\ r.entry \in {"run", "static"} /\ r.n > 0
  /\ (r.seq_n > 0 \/ (r.seq_n = -1 /\ r.entry = "static"))    \* -1: sequence overloads not instantiated for this compile-time pair (thorough tier, beyond the quick selection)
  /\ LET checks == << <<r.nonfinite = 0, "conv_nonfinite">>,
                      <<r.ulps <= (IF r.affine THEN BudgetAffine ELSE BudgetMul), "conv_ulps">>,
                      <<r.affine \/ r.zero = 1, "conv_zero_not_zero">>,
                      <<r.affine \/ r.sym = 1, "conv_sign_asymmetric">>,
                      <<r.entry = "static" => r.vs_runtime <= BudgetEntry, "conv_static_vs_runtime">>,
                      <<r.seq_diff = 0, "conv_sequence_overload">>,      \* array / std::vector / vector / tensor overloads agree with the scalar overload per component within two representable neighbours (seq_diff counts components further away)
                      <<ClassesOK(r.classes), "inconclusive_value_classes">> >>
         failed == SelectSeq(checks, LAMBDA c : ~c[1])
     IN bad' = IF Len(bad) >= 400 THEN bad ELSE bad \o [i \in 1..Len(failed) |-> V(failed[i][2], r)]
  /\ toStd'   = IF r.to = Std[r.type]   THEN toStd \cup {<<r.type, r.from, r.num, r.entry>>} ELSE toStd
  /\ fromStd' = IF r.from = Std[r.type] THEN fromStd \cup {<<r.type, r.to, r.num, r.entry>>} ELSE fromStd
  /\ pairs' = pairs + 1
AllLegs == {<<t, u, n, e>> : t \in DOMAIN Units, u \in {"x"}, n \in {"f", "d", "l"}, e \in {"run", "static"}}
Expected == UNION {{<<t, Units[t][i], n, e>> : i \in 1..Len(Units[t]), n \in {"f", "d", "l"}, e \in {"run", "static"}} : t \in DOMAIN Units}
TFinish == /\ l = Len(Events) + 1 /\ l' = l + 1
           /\ JsonSerialize(IOEnv.OUT, [bad |-> bad, pairs |-> pairs,
                 missing_to_std |-> Cardinality(Expected \ toStd), missing_from_std |-> Cardinality(Expected \ fromStd),
                 expected_legs |-> Cardinality(Expected)])
           /\ UNCHANGED <<bad, toStd, fromStd, pairs>>
Next == TConv \/ TFinish
Spec == Init /\ [][Next]_vars
Accepted == TLCGet("stats").diameter - 2 = Len(Events)
=============================================================================
