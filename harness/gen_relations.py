"""Generates the `relations` evaluator: one function per relation of the extracted graph (operators,
constructors, members), callable on SI component values in float / double / long double.
Modes:
  relations eval                       stdin: "<id> <f|d|l> <v>*"  -> stdout "<id> <n> <hexfloat>*"
  relations list                       prints the table (id, nargs, arg sizes, result size)
  relations equiv <file> <seed> <n>    C03 numeric layer (power-of-two rescaling of the base units)
  relations twin <file> <seed> <n>     C04: operator vs constructor twin, bit for bit
  relations inverse <file> <seed> <n>  C05: round trips
"""
import qgen

PRE = r'''
#include <cstdio>
#include <cstdint>
#include <cstdlib>
#include <cstring>
#include <cmath>
#include <string>
#include <vector>
#include <random>
%(inc)s
using namespace PhQ;
%(comps)s
template<class T> struct RelT { int id; int (*f)(const T*, T*); };
'''

MAIN = r'''
#include <cstdio>
#include <cstdint>
#include <cstdlib>
#include <cstring>
#include <cmath>
#include <string>
#include <vector>
#include <random>
#include <map>
#include <sstream>
#include <limits>
template<class T> struct RelT { int id; int (*f)(const T*, T*); };
%(decls)s
template<class T> static std::map<int, int(*)(const T*, T*)>& table(){ static std::map<int, int(*)(const T*, T*)> m; return m; }
template<class T> static void reg(const RelT<T>* r, int n){ for(int i=0;i<n;i++) table<T>()[r[i].id]=r[i].f; }
struct Info { int id; int nargs; int asz[9]; int rsz; std::string name; };
static const Info INFO[] = {
%(info)s
};
static const int NINFO = %(ninfo)d;
static const Info* info_of(int id){ for(int i=0;i<NINFO;i++) if(INFO[i].id==id) return &INFO[i]; return nullptr; }
template<class T> static bool call(int id, const long double* in, int nin, long double* out, int& nout){
  auto it = table<T>().find(id); if(it==table<T>().end()) return false;
  T x[96]; for(int i=0;i<96;i++) x[i]= i<nin ? (T)in[i] : (T)0; T o[16]; nout = it->second(x,o); for(int i=0;i<nout;i++) out[i]=(long double)o[i]; return true; }
static bool callnum(char num, int id, const long double* in, int nin, long double* out, int& nout){
  return num=='f'? call<float>(id,in,nin,out,nout) : num=='d'? call<double>(id,in,nin,out,nout) : call<long double>(id,in,nin,out,nout); }

// ---- numeric modes -------------------------------------------------------------------------
template<class T> static double ulps(T a, T b){ if(a==b) return 0; if(!std::isfinite((long double)a)||!std::isfinite((long double)b)) return 1e18;
  T s = std::max(std::fabs(a), std::fabs(b)); int e; std::frexp(s,&e); T u = std::ldexp((T)1, e-std::numeric_limits<T>::digits); return (double)(std::fabs(a-b)/u); }
// equiv file line: id  nargs  then per arg: 7 dims, normalised-flag ; then 7 result dims, sqrt-flag
template<class T> static void equiv_one(const char* tn, int id, int nargs, const int (*ad)[7], const int* norm, const int* rd, int sq, uint64_t seed, int n){
  auto it = table<T>().find(id); if(it==table<T>().end()) return; const Info* inf = info_of(id);
  std::mt19937_64 g(seed*1000003+id); std::uniform_real_distribution<double> U(0.5,2.0);
  double worst=0; long cnt=0; int bad_sign=0; long double wit=0; int nonfinite=0;
  for(int t=0;t<n;t++){
    T x[96]={0}, y[96]={0}; int k[7]; for(int d=0;d<7;d++){ k[d] = (int)(g()%%7)-3; if(sq) k[d]*=2; }
    T rs = 1; { int e=0; for(int d=0;d<7;d++) e+=k[d]*rd[d]; rs = std::ldexp((T)1,e); }
    int off=0;
    for(int a=0;a<nargs;a++){ int e=0; for(int d=0;d<7;d++) e+=k[d]*ad[a][d]; T s = norm[a]? (T)1 : std::ldexp((T)1,e);
      for(int c=0;c<inf->asz[a];c++){ T v = (T)U(g) * ((g()&1)? 1:-1); if(t%%3==0 || sq) v = std::fabs(v); x[off+c]=v; y[off+c]=v*s; } off+=9; }
    T o1[16], o2[16]; int n1 = it->second(x,o1); int n2 = it->second(y,o2); (void)n2;
    for(int c=0;c<n1;c++){ if(!std::isfinite((long double)o1[c])||!std::isfinite((long double)o2[c])){ nonfinite++; continue; }
      double u = ulps<T>(o1[c]*rs, o2[c]); if(u>worst){ worst=u; wit=(long double)x[0]; } cnt++; }
  }
  printf("{\"e\":\"Equiv\",\"id\":%%d,\"num\":\"%%s\",\"ulps\":%%ld,\"n\":%%ld,\"nonfinite\":%%d,\"witness\":\"%%La\"}\n", id, tn, worst>1e9? 1000000000L : (long)std::ceil(worst), cnt, nonfinite, wit);
}
static int run_equiv(const char* file, uint64_t seed, int n){
  FILE* f=fopen(file,"r"); if(!f) return 3; int id,nargs;
  while(fscanf(f,"%%d %%d",&id,&nargs)==2){ int ad[9][7]; int norm[9]; int rd[7]; int sq;
    for(int a=0;a<nargs;a++){ for(int d=0;d<7;d++) fscanf(f,"%%d",&ad[a][d]); fscanf(f,"%%d",&norm[a]); }
    for(int d=0;d<7;d++) fscanf(f,"%%d",&rd[d]); fscanf(f,"%%d",&sq);
    equiv_one<float>("f",id,nargs,ad,norm,rd,sq,seed,n); equiv_one<double>("d",id,nargs,ad,norm,rd,sq,seed,n); equiv_one<long double>("l",id,nargs,ad,norm,rd,sq,seed,n); }
  fclose(f); return 0; }
// twin file line: id_op id_ctor perm(0: same order, 1: swapped)
template<class T> static void twin_one(const char* tn, int ia, int ib, int perm, uint64_t seed, int n){
  auto fa = table<T>().find(ia), fb = table<T>().find(ib); if(fa==table<T>().end()||fb==table<T>().end()) return;
  const Info* inf = info_of(ia); std::mt19937_64 g(seed*7919+ia*31+ib); std::uniform_real_distribution<double> U(-4,4);
  long diff=0, cnt=0; long double wit=0;
  for(int t=0;t<n;t++){ T x[96]={0}, y[96]={0};
    for(int a=0;a<2;a++) for(int c=0;c<inf->asz[a];c++){ T v=(T)std::ldexp(U(g),(int)(g()%%40)-20); if(v==0) v=1; x[a*9+c]=v; y[(perm? 1-a : a)*9+c]=v; }
    T o1[16], o2[16]; int n1=fa->second(x,o1); fb->second(y,o2);
    for(int c=0;c<n1;c++){ cnt++; if(!(o1[c]==o2[c]) && !(o1[c]!=o1[c] && o2[c]!=o2[c])){ if(!diff) wit=(long double)x[0]; diff++; } } }
  printf("{\"e\":\"Twin\",\"op\":%%d,\"ctor\":%%d,\"num\":\"%%s\",\"n\":%%ld,\"diff\":%%ld,\"witness\":\"%%La\"}\n", ia, ib, tn, cnt, diff, wit);
}
static int run_twin(const char* file, uint64_t seed, int n){ FILE* f=fopen(file,"r"); if(!f) return 3; int a,b,p;
  while(fscanf(f,"%%d %%d %%d",&a,&b,&p)==3){ twin_one<float>("f",a,b,p,seed,n); twin_one<double>("d",a,b,p,seed,n); twin_one<long double>("l",a,b,p,seed,n); } fclose(f); return 0; }
// inverse file line: id_fwd id_back posA(position of A in fwd args) posC(position of C in back args) sqrt-flag
//  fwd: C = f(A,B) ; back: A = g(.. C at posC, B at the other ..)
template<class T> static void inv_one(const char* tn, int ifw, int ibk, int nfw, int posA, int posC, int sq, int lin, const int* role, int roleC, uint64_t seed, int n){
  auto ff = table<T>().find(ifw), fb = table<T>().find(ibk); if(ff==table<T>().end()||fb==table<T>().end()) return;
  const Info* i1 = info_of(ifw); std::mt19937_64 g(seed*104729+ifw*131+ibk); std::uniform_real_distribution<double> U(1.0,2.0);
  double worst=0; long cnt=0; int nonfinite=0; long double wit=0;
  for(int t=0;t<n;t++){ T x[96]={0}; int span = std::min(60, std::numeric_limits<T>::max_exponent/4);
    for(int a=0;a<nfw;a++) for(int c=0;c<i1->asz[a];c++) x[a*9+c]=(T)std::ldexp(U(g), (int)(g()%%(unsigned)span) - span/2);
    if(role[0]||role[1]){ // admissible thermodynamic state: cv > 0, gamma - 1 in [2^-13, 4) (gases from heavy polyatomic to far beyond monatomic), cp = gamma cv, R = cp - cv
      T cv=(T)std::ldexp(U(g), (int)(g()%%(unsigned)span) - span/2), gam=(T)1+(T)std::ldexp(U(g), 1-(int)(g()%%14)), cp=gam*cv, R=cp-cv;
      for(int a=0;a<nfw;a++){ T v = role[a]==1? cp : role[a]==2? cv : role[a]==3? R : role[a]==4? gam : x[a*9]; x[a*9]=v; } }
    T c1[16]; int nc = ff->second(x,c1); T y[96]={0};
    for(int c=0;c<nc;c++) y[posC*9+c]=c1[c];
    if(nfw==2) for(int c=0;c<i1->asz[1-posA];c++) y[(1-posC)*9+c]=x[(1-posA)*9+c];
    T a2[16]; int na = fb->second(y,a2);
    // when the intermediate quantity IS the heat capacity ratio, rounding it to T loses gamma - 1 to relative accuracy eps gamma/(gamma - 1): inherent to the round trip, whatever the formulas
    double kap = 1; if(roleC==4 && c1[0]>(T)1) kap = (double)(c1[0]/(c1[0]-(T)1));
    for(int c=0;c<na;c++){ if(!std::isfinite((long double)a2[c])){ nonfinite++; continue; } double u=ulps<T>(a2[c], x[posA*9+c])/kap; if(lin){ T sc=std::fabs(x[posA*9+c]); if(nfw==2) sc=std::max(sc,std::fabs(x[(1-posA)*9+c])); sc=std::max(sc,std::fabs(c1[c])); int e; std::frexp(sc,&e); u=(double)(std::fabs(a2[c]-x[posA*9+c])/std::ldexp((T)1,e-std::numeric_limits<T>::digits))/kap; } if(u>worst){ worst=u; wit=(long double)x[posA*9+c]; } cnt++; } }
  printf("{\"e\":\"Inverse\",\"fwd\":%%d,\"back\":%%d,\"num\":\"%%s\",\"ulps\":%%ld,\"n\":%%ld,\"nonfinite\":%%d,\"sqrt\":%%d,\"kappa\":%%d,\"witness\":\"%%La\"}\n", ifw, ibk, tn, worst>1e9? 1000000000L:(long)std::ceil(worst), cnt, nonfinite, sq, (role[0]||role[1])? 2:1, wit);
}
static int run_inverse(const char* file, uint64_t seed, int n){ FILE* f=fopen(file,"r"); if(!f) return 3; int a,b,nf,pa,pc,sq,lin,role[2],rc;
  while(fscanf(f,"%%d %%d %%d %%d %%d %%d %%d %%d %%d %%d",&a,&b,&nf,&pa,&pc,&sq,&lin,&role[0],&role[1],&rc)==10){ inv_one<float>("f",a,b,nf,pa,pc,sq,lin,role,rc,seed,n); inv_one<double>("d",a,b,nf,pa,pc,sq,lin,role,rc,seed,n); inv_one<long double>("l",a,b,nf,pa,pc,sq,lin,role,rc,seed,n); } fclose(f); return 0; }

// opnative file line: id opcode(0 + 1 - 2 * 3 /) : every operator instance equals, bit for bit, the native operation on the stored values
template<class T> static void opnative_one(const char* tn, int id, int opc, uint64_t seed, int n){
  auto it = table<T>().find(id); if(it==table<T>().end()) return; const Info* inf = info_of(id); std::mt19937_64 g(seed*7+id); std::uniform_real_distribution<double> U(1.0,2.0);
  long diff=0, cnt=0; long double wa=0, wb=0;
  for(int t=0;t<n;t++){ T x[96]={0}; for(int a=0;a<2;a++) for(int c=0;c<inf->asz[a];c++){ T v=(T)std::ldexp(U(g),(int)(g()%%30)-15)*((g()&1)?1:-1); if(sizeof(T)>8) v+=(T)std::ldexp((long double)(g()&1023), -70); x[a*9+c]=v; }
    T o[16]; int no=it->second(x,o); for(int c=0;c<no;c++){ T a=x[inf->asz[0]==1? 0 : c], b=x[9+(inf->asz[1]==1? 0 : c)]; T w = opc==0? a+b : opc==1? a-b : opc==2? a*b : a/b; cnt++;
      if(std::memcmp(&o[c],&w, sizeof(T)>10? 10 : sizeof(T))!=0 && !(o[c]!=o[c] && w!=w)){ if(!diff){ wa=(long double)a; wb=(long double)b; } diff++; } } }
  printf("{\"e\":\"OpNative\",\"id\":%%d,\"num\":\"%%s\",\"n\":%%ld,\"diff\":%%ld,\"wa\":\"%%La\",\"wb\":\"%%La\"}\n", id, tn, cnt, diff, wa, wb);
}
static int run_opnative(const char* file, uint64_t seed, int n){ FILE* f=fopen(file,"r"); if(!f) return 3; int id,opc; while(fscanf(f,"%%d %%d",&id,&opc)==2){ opnative_one<float>("f",id,opc,seed,n); opnative_one<double>("d",id,opc,seed,n); opnative_one<long double>("l",id,opc,seed,n); } fclose(f); return 0; }
// mono file line: id nargs c2num c2den neg deg2...   reference c * prod x^(deg/2) in __float128 (all-scalar monomial relations)
#include <quadmath.h>
template<class T> static void mono_one(const char* tn, int id, int nargs, long c2n, long c2d, int neg, const int* deg2, uint64_t seed, int n){
  auto it = table<T>().find(id); if(it==table<T>().end()) return; std::mt19937_64 g(seed*2654435761ULL+id); std::uniform_real_distribution<double> U(1.0,2.0);
  double worst=0; long cnt=0; int nonfinite=0; long double wit=0; bool sq=false; for(int a=0;a<nargs;a++) if(deg2[a]%%2) sq=true; __float128 c = sqrtq((__float128)c2n/(__float128)c2d); if(neg) c=-c;
  int span = std::min(40, std::numeric_limits<T>::max_exponent/8);
  for(int t=0;t<n;t++){ T x[96]={0}; __float128 ref=c; for(int a=0;a<nargs;a++){ x[a*9]=(T)std::ldexp(U(g),(int)(g()%%(unsigned)span)-span/2); ref *= powq((__float128)x[a*9], (__float128)deg2[a]/2); }
    T o[16]; it->second(x,o); if(!std::isfinite((long double)o[0])){ nonfinite++; continue; } int e; frexpq(fabsq(ref),&e); double u=(double)(fabsq((__float128)o[0]-ref)/ldexpq((__float128)1,e-std::numeric_limits<T>::digits)); if(u>worst){ worst=u; wit=(long double)x[0]; } cnt++; }
  printf("{\"e\":\"MonoReal\",\"id\":%%d,\"num\":\"%%s\",\"ulps\":%%ld,\"n\":%%ld,\"nonfinite\":%%d,\"sqrt\":%%d,\"witness\":\"%%La\"}\n", id, tn, worst>1e9? 1000000000L:(long)std::ceil(worst), cnt, nonfinite, (int)sq, wit);
}
static int run_mono(const char* file, uint64_t seed, int n){ FILE* f=fopen(file,"r"); if(!f) return 3; int id,nargs,neg; long c2n,c2d;
  while(fscanf(f,"%%d %%d %%ld %%ld %%d",&id,&nargs,&c2n,&c2d,&neg)==5){ int deg2[9]; for(int a=0;a<nargs;a++) fscanf(f,"%%d",&deg2[a]);
    mono_one<float>("f",id,nargs,c2n,c2d,neg,deg2,seed,n); mono_one<double>("d",id,nargs,c2n,c2d,neg,deg2,seed,n); mono_one<long double>("l",id,nargs,c2n,c2d,neg,deg2,seed,n); } fclose(f); return 0; }
// tensor-valued definitions against their textbook formulas in __float128.  file line: id kind
//  kind 1: symmetric part of a gradient (9 -> 6)   2: (beta dT / 3) I (1,1 -> 6)   3: von Mises (6 -> 1)   4: traction sigma.n (6,3 -> 3, n a direction)
//  kind 5: -p I (1 -> 6)   6: planar traction sigma.n (6,2 -> 2)
template<class T> static void tdef_one(const char* tn, int id, int kind, uint64_t seed, int n){
  auto it = table<T>().find(id); if(it==table<T>().end()) return; std::mt19937_64 g(seed*40503+id); std::uniform_real_distribution<double> U(-1.0,1.0); typedef __float128 Q;
  double worst=0; long cnt=0; int nonfinite=0;
  for(int t=0;t<n;t++){ T x[96]={0}; int ex=(int)(g()%%41)-20; auto r=[&](){ T v=(T)std::ldexp(U(g),ex); if(sizeof(T)>8) v+= (T)std::ldexp((long double)(g()&1023), ex-70); return v==0? (T)1 : v; };
    Q ref[9]; Q mag[9]; int nout=0;
    if(kind==1){ for(int i=0;i<9;i++) x[i]=r(); auto A=[&](int i,int j){ return (Q)x[3*i+j]; }; int sl[6][2]={{0,0},{0,1},{0,2},{1,1},{1,2},{2,2}}; nout=6; for(int k=0;k<6;k++){ int i=sl[k][0], j=sl[k][1]; ref[k]=(A(i,j)+A(j,i))/2; mag[k]=(fabsq(A(i,j))+fabsq(A(j,i)))/2; } }
    else if(kind==2){ x[0]=std::fabs(r()); x[9]=std::fabs(r()); Q v=(Q)x[0]*(Q)x[9]/3; nout=6; Q z[6]={v,0,0,v,0,v}; for(int k=0;k<6;k++){ ref[k]=z[k]; mag[k]=fabsq(v); } }
    else if(kind==3){ for(int i=0;i<6;i++) x[i]=r(); if(t%%3==1){ /* nearly hydrostatic: a large isotropic part plus a small deviator (the differences of the normal components cancel) */ T p=(T)std::ldexp((T)(1.0+std::fabs(U(g))),ex+8)*((g()&1)?1:-1); int k=4+(int)(g()%%(unsigned)(std::numeric_limits<T>::digits-8)); for(int i=0;i<6;i++){ T dv=(T)std::ldexp(U(g),ex+8-k); bool diag=(i==0||i==3||i==5); x[i]= diag? p+dv : dv; } } Q s[6]; for(int i=0;i<6;i++) s[i]=x[i]; Q v=((s[0]-s[3])*(s[0]-s[3])+(s[3]-s[5])*(s[3]-s[5])+(s[5]-s[0])*(s[5]-s[0])+6*(s[1]*s[1]+s[2]*s[2]+s[4]*s[4]))/2; nout=1; ref[0]=sqrtq(v); mag[0]=ref[0]; /* true relative error: the differences of the normal components are formed first, so no credit for cancellation is needed */ }
    else if(kind==4 || kind==6){ for(int i=0;i<6;i++) x[i]=r(); int nd = kind==4? 3:2; T d[3]={0,0,0}; Q l2=0; for(int i=0;i<nd;i++){ d[i]=(T)U(g); l2+=(Q)d[i]*d[i]; } if(l2==0){ d[0]=1; l2=1; }
      for(int i=0;i<nd;i++) x[9+i]=d[i];   // the harness normalises: the unit vector the library sees is d/|d| rounded to T; use the exact normalised one with a looser budget
      Q nn[3]={0,0,0}; Q ln=sqrtq(l2); for(int i=0;i<nd;i++) nn[i]=(Q)d[i]/ln; Q S[3][3]={{(Q)x[0],(Q)x[1],(Q)x[2]},{(Q)x[1],(Q)x[3],(Q)x[4]},{(Q)x[2],(Q)x[4],(Q)x[5]}}; nout=nd; for(int i=0;i<nd;i++){ ref[i]=0; mag[i]=0; for(int j=0;j<3;j++){ ref[i]+=S[i][j]*nn[j]; mag[i]+=fabsq(S[i][j]*nn[j]); } } }
    else if(kind==5){ x[0]=r(); nout=6; Q z[6]={-(Q)x[0],0,0,-(Q)x[0],0,-(Q)x[0]}; for(int k=0;k<6;k++){ ref[k]=z[k]; mag[k]=fabsq((Q)x[0]); } }
    T o[16]; int no=it->second(x,o); if(no!=nout){ worst=1e18; continue; }
    for(int k=0;k<nout;k++){ if(!std::isfinite((long double)o[k])){ nonfinite++; continue; } Q sc=mag[k]; if(sc==0){ if(o[k]!=0) worst=1e18; continue; } int e; frexpq(sc,&e); double u=(double)(fabsq((Q)o[k]-ref[k])/ldexpq((Q)1,e-std::numeric_limits<T>::digits)); if(u>worst) worst=u; } cnt++; }
  printf("{\"e\":\"TensorDefReal\",\"id\":%%d,\"kind\":%%d,\"num\":\"%%s\",\"ulps\":%%ld,\"n\":%%ld,\"nonfinite\":%%d}\n", id, kind, tn, worst>1e9? 1000000000L:(long)std::ceil(worst), cnt, nonfinite);
}
static int run_tdef(const char* file, uint64_t seed, int n){ FILE* f=fopen(file,"r"); if(!f) return 3; int id,kind; while(fscanf(f,"%%d %%d",&id,&kind)==2){ tdef_one<float>("f",id,kind,seed,n); tdef_one<double>("d",id,kind,seed,n); tdef_one<long double>("l",id,kind,seed,n); } fclose(f); return 0; }

int main(int argc, char** argv){
%(regs)s
  std::string mode = argc>1? argv[1] : "eval";
  if(mode=="list"){ for(int i=0;i<NINFO;i++){ printf("%%d %%d %%d %%s\n", INFO[i].id, INFO[i].nargs, INFO[i].rsz, INFO[i].name.c_str()); } return 0; }
  if(mode=="equiv") return run_equiv(argv[2], strtoull(argv[3],0,10), atoi(argv[4]));
  if(mode=="twin") return run_twin(argv[2], strtoull(argv[3],0,10), atoi(argv[4]));
  if(mode=="inverse") return run_inverse(argv[2], strtoull(argv[3],0,10), atoi(argv[4]));
  if(mode=="opnative") return run_opnative(argv[2], strtoull(argv[3],0,10), atoi(argv[4]));
  if(mode=="mono") return run_mono(argv[2], strtoull(argv[3],0,10), atoi(argv[4]));
  if(mode=="tdef") return run_tdef(argv[2], strtoull(argv[3],0,10), atoi(argv[4]));
  setvbuf(stdout, NULL, _IOLBF, 0);
  char line[8192];
  while(fgets(line,sizeof line,stdin)){
    std::istringstream ss(line); int id; std::string num; if(!(ss>>id>>num)) continue; long double in[96]; int nin=0; std::string tok;
    while(ss>>tok && nin<96) in[nin++]=strtold(tok.c_str(),0);
    long double out[16]; int nout=0; if(!callnum(num[0],id,in,nin,out,nout)){ printf("%%d -1\n",id); continue; }
    printf("%%d %%d",id,nout); for(int i=0;i<nout;i++) printf(" %%La",out[i]); printf("\n"); }
  return 0; }
'''


def relation_table(g):
    """Stable ids: sorted ops, then ctors, then members.  Returns list of dicts."""
    qs = g['qs']
    rels = []
    for a, op, b, c in g['ops']:
        if a == 'Number' and b == 'Number':
            continue
        rels.append({'kind': 'op', 'name': f'{a} {op} {b}', 'op': op, 'args': [a, b], 'ret': c})
    # compound assignments whose right-hand side has another quantity type (Position += Displacement ...): the value left in the
    # left-hand side; same-type and numeric compound assignments are exercised for every type by the battery
    for a, op, b in g.get('cops', []):
        if a != b and b != 'Number':
            rels.append({'kind': 'cop', 'name': f'{a} {op} {b}', 'op': op, 'args': [a, b], 'ret': a})
    for c, args in g['ctors']:
        rels.append({'kind': 'ctor', 'name': f'{c}({",".join(args)})', 'op': 'ctor', 'args': list(args), 'ret': c})
    for m in g.get('members', []):
        rels.append({'kind': 'member', 'name': f'{m["cls"]}.{m["name"]}({",".join(m["args"])})', 'op': m['name'],
                     'args': [m['cls']] + list(m['args']), 'ret': m['ret']})
    for mc in g.get('multictors', []):
        rels.append({'kind': 'ctor', 'name': f'{mc["cls"]}({",".join(mc["args"])})', 'op': 'ctor', 'args': list(mc['args']), 'ret': mc['cls']})
    for i, r in enumerate(rels):
        r['id'] = i
        r['asz'] = [qgen.NCOMP[qgen.shape_of(a, qs)] for a in r['args']]
        r['rsz'] = qgen.NCOMP[qgen.shape_of(r['ret'], qs)]
    return rels


def expr(r, qs):
    args = [qgen.mk(a, qs, 'x', str(9 * i)) for i, a in enumerate(r['args'])]
    if r['kind'] == 'op':
        return f'({args[0]}) {r["op"]} ({args[1]})'
    if r['kind'] == 'cop':
        return f'[&]{{ auto lhs = {args[0]}; lhs {r["op"]} ({args[1]}); return lhs; }}()'
    if r['kind'] == 'ctor':
        return f'{r["ret"]}<T>({", ".join(args)})'
    return f'({args[0]}).{r["op"]}({", ".join(args[1:])})'


def sources(g, nparts=14, exclude=()):
    qs = g['qs']
    rels = [r for r in relation_table(g) if r['name'] not in exclude]
    parts = []
    for k in range(nparts):
        mine = rels[k::nparts]
        out = [PRE % {'inc': qgen.includes(qs), 'comps': qgen.COMPS_HPP}]
        for r in mine:
            ret_is_num = r['ret'] == 'Number' or r['ret'] in qgen.RAWTYPES
            put = 'put' if ret_is_num else 'putq'
            out.append(f'template<class T> static int rel_{r["id"]}(const T* x, T* out){{ auto r = {expr(r, qs)}; return {put}(r, out); }}')
        for T, tn in (('float', 'f'), ('double', 'd'), ('long double', 'l')):
            out.append(f'extern const RelT<{T}> TAB_{tn}_{k}[] = {{' + ','.join(f'{{{r["id"]}, rel_{r["id"]}<{T}>}}' for r in mine) + '};')
            out.append(f'extern const int N_{tn}_{k} = {len(mine)};')
        parts.append((f'rel_part{k}.cpp', '\n'.join(out) + '\n'))
    decls, regs = [], []
    for k in range(nparts):
        for T, tn in (('float', 'f'), ('double', 'd'), ('long double', 'l')):
            decls.append(f'extern const RelT<{T}> TAB_{tn}_{k}[]; extern const int N_{tn}_{k};')
            regs.append(f'  reg<{T}>(TAB_{tn}_{k}, N_{tn}_{k});')
    info = ',\n'.join('{%d,%d,{%s},%d,"%s"}' % (r['id'], len(r['args']), ','.join(str(x) for x in (r['asz'] + [0] * 9)[:9]), r['rsz'], r['name']) for r in rels)
    parts.append(('rel_main.cpp', MAIN % {'decls': '\n'.join(decls), 'regs': '\n'.join(regs), 'info': info, 'ninfo': len(rels)}))
    return parts, rels
