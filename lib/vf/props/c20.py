"""C20 — no exceptions and no undefined behaviour on any finite input."""
import concurrent.futures as cf
import json
import os
import re
import subprocess
import sys

from .. import common as C, unitsfacts as U, relgraph as G

sys.path.insert(0, os.path.join(C.VERIF, 'extract'))
sys.path.insert(0, C.HARNESS)
import scan          # noqa: E402
import gen_dump      # noqa: E402
import gen_battery   # noqa: E402
import gen_dirs      # noqa: E402
import gen_forms     # noqa: E402
import gen_relations  # noqa: E402

SAN = ['-std=c++17', '-O1', '-g', '-w', '-fno-fast-math', '-fsanitize=address,undefined', '-fno-sanitize-recover=all', '-fno-omit-frame-pointer', '-D_GLIBCXX_DEBUG']
ENV = {'ASAN_OPTIONS': 'detect_leaks=1:abort_on_error=0:exitcode=66', 'UBSAN_OPTIONS': 'print_stacktrace=1:halt_on_error=1:exitcode=67'}


def classify(rc, err):
    if 'AddressSanitizer' in err:
        m = re.search(r'AddressSanitizer: ([\w-]+)', err)
        return 'asan:' + (m.group(1) if m else 'report')
    if 'runtime error' in err:
        m = re.search(r'runtime error: ([^\n]{0,80})', err)
        return 'ubsan:' + (m.group(1) if m else 'report')
    if 'terminate called' in err or 'what():' in err:
        m = re.search(r"instance of '([^']+)'", err)
        return 'exception:' + (m.group(1) if m else 'unknown')
    if 'Error: attempt to' in err or '_GLIBCXX_DEBUG' in err or 'Assertion' in err:
        return 'libstdc++-debug-assertion'
    return f'exit:{rc}'


def run(tier):
    chk = C.Check('C20', tier, level='other')
    thorough = tier == 'thorough'
    # ---- Layer A: table totality (every enumerator is a key of every table) from the K1 facts
    uout = U.run()
    U.report(chk, 'C20', uout)
    chk.layer('A', enumerators=len([e for e in uout['facts'] if e['e'] == 'Enumerator']),
              note='Trace_Units: every enumerator of every enumeration type is a key of Abbreviations, of both conversion tables in the three numeric types and of ConsistentUnits: no unchecked lookup can miss')
    # ---- conformance: harnesses rebuilt with ASan + UBSan + libstdc++ debug mode and re-run at reduced sample size
    us, others, qs = uout['units'], uout['others'], uout['quantities']
    g = G.graph()
    jobs = []   # (name, sources, libs, [argv...])
    jobs.append(('parsefuzz', [os.path.join(C.HARNESS, 'parsefuzz.cpp')], [], [[str(C.SEED), str(3000 if not thorough else 100000)]]))
    jobs.append(('dump_tables', [C.gen_file(n, t) for n, t in gen_dump.sources(us, others, qs)], [], [[], ['fuzz', str(C.SEED), '500']]))
    jobs.append(('shapes', [os.path.join(C.HARNESS, 'shapes.cpp')], ['-lquadmath'], [['exact', str(C.SEED), '500'], ['real', str(C.SEED), '300']]))
    jobs.append(('numfmt', [os.path.join(C.HARNESS, 'numfmt.cpp')], ['-lquadmath'], [['classes', str(C.SEED), '20000']]))
    jobs.append(('models', [os.path.join(C.HARNESS, 'models.cpp')], ['-lquadmath'], [['exact', str(C.SEED), '1'], ['cmp', str(C.SEED), '100'], ['real', str(C.SEED), '200']]))
    jobs.append(('dims_box', [os.path.join(C.HARNESS, 'dims_box.cpp')], [], [['1', str(C.SEED), '200']]))
    jobs.append(('slots', [os.path.join(C.HARNESS, 'slots.cpp')], [], [[str(C.SEED), '200']]))
    dparts, _, _ = gen_dirs.sources(g['qs'], g['members'])
    jobs.append(('dirs', [C.gen_file(n, t) for n, t in dparts], ['-lquadmath'], [['dirs', str(C.SEED), '300'], ['angles', str(C.SEED), '300']]))
    bparts, bks = gen_battery.sources(qs)
    jobs.append(('battery', [C.gen_file(n, t) for n, t in bparts], [], [[m, '-', str(C.SEED), '200'] for m in ('layout', 'cast', 'compare', 'arith', 'mathfn', 'mutators', 'composite')]))
    if thorough:
        fparts, fks = gen_forms.sources(us, qs)
        jobs.append(('forms', [C.gen_file(n, t) for n, t in fparts], [], [['free', str(C.SEED), '2'], ['accessors', str(C.SEED), '2']]))
        excl = []
        blk = os.path.join(C.cache_dir('facts'), 'uninstantiable.json')
        if os.path.exists(blk):
            excl = json.load(open(blk))
        rparts, rels = gen_relations.sources(g, exclude=set(excl))
        jobs.append(('relations', [C.gen_file(n, t) for n, t in rparts], ['-lquadmath'], [['list']]))
    evs = []

    def one(job):
        name, srcs, libs, runs = job
        out = []
        try:
            exe = C.compile_cxx(name + '_san', srcs, flags=SAN, libs=libs, timeout=3400)
        except C.ToolError as e:
            return [{'e': 'ToolError', 'harness': name, 'detail': str(e)[-400:]}]
        for argv in runs:
            try:
                r = subprocess.run([exe] + argv, stdout=subprocess.PIPE, stderr=subprocess.PIPE, timeout=1700, env=dict(os.environ, **ENV))
            except subprocess.TimeoutExpired:
                out.append({'e': 'ToolError', 'harness': name, 'detail': 'timeout'})
                continue
            err = r.stderr.decode(errors='replace')
            lines = [x for x in r.stdout.decode(errors='replace').splitlines() if x.startswith('{')]
            if r.returncode != 0:
                out.append({'e': 'Fault', 'harness': name + ' ' + ' '.join(argv[:1]), 'kind': classify(r.returncode, err), 'detail': err[-600:].encode('ascii', 'replace').decode()})
            else:
                out.append({'e': 'HarnessRun', 'harness': name + ' ' + ' '.join(argv[:1]), 'events': len(lines)})
            if name == 'parsefuzz':
                out += [json.loads(x) for x in lines]
        return out
    with cf.ThreadPoolExecutor(4) as ex:
        for o in ex.map(one, jobs):
            evs += o
    if thorough:
        # libFuzzer (clang): coverage-guided byte strings into the parsers for 90 s
        try:
            fz = C.compile_cxx('fuzz_parse', [os.path.join(C.HARNESS, 'fuzz_parse.cpp')], compiler='clang++',
                               flags=['-std=c++17', '-O1', '-g', '-w', '-fsanitize=fuzzer,address,undefined', '-fno-sanitize-recover=all'])
            fwd = C.work_dir('fuzz')
            r = subprocess.run([fz, '-max_total_time=90', '-max_len=64', f'-seed={C.SEED % 100000}', '-print_final_stats=1', f'-artifact_prefix={fwd}/'], cwd=fwd,
                               stdout=subprocess.PIPE, stderr=subprocess.PIPE, timeout=600, env=dict(os.environ, **ENV))
            err = r.stderr.decode(errors='replace')
            m = re.search(r'stat::number_of_executed_units:\s*(\d+)', err)
            if r.returncode != 0:
                evs.append({'e': 'Fault', 'harness': 'libFuzzer parsers', 'kind': classify(r.returncode, err), 'detail': err[-600:].encode('ascii', 'replace').decode()})
            else:
                evs.append({'e': 'HarnessRun', 'harness': 'libFuzzer parsers', 'events': int(m.group(1)) if m else 0})
        except C.ToolError as e:
            chk.note_inconclusive('libFuzzer target did not build: ' + str(e)[-200:])
        # valgrind memcheck on unsanitized -O0 builds at small sample size: reads of uninitialised values
        for name, srcf, libs, argv in (('shapes', 'shapes.cpp', ['-lquadmath'], ['exact', '1', '50']), ('parsefuzz', 'parsefuzz.cpp', [], ['1', '200']),
                                       ('dims_box', 'dims_box.cpp', [], ['1', '1', '50']), ('models', 'models.cpp', ['-lquadmath'], ['exact', '1', '1'])):
            exe = C.compile_cxx(name + '_O0', [os.path.join(C.HARNESS, srcf)], flags=['-std=c++17', '-O0', '-g', '-w'], libs=libs)
            r = subprocess.run(['valgrind', '--quiet', '--error-exitcode=99', '--track-origins=no', exe] + argv, stdout=subprocess.PIPE, stderr=subprocess.PIPE, timeout=3000)
            if r.returncode == 99:
                evs.append({'e': 'Fault', 'harness': 'valgrind ' + name, 'kind': 'memcheck', 'detail': r.stderr.decode(errors='replace')[-600:].encode('ascii', 'replace').decode()})
            else:
                evs.append({'e': 'HarnessRun', 'harness': 'valgrind ' + name, 'events': len(r.stdout.splitlines())})
    tool = [e for e in evs if e['e'] == 'ToolError']
    if tool:
        raise C.ToolError('sanitizer build/run failed: ' + json.dumps(tool)[:1500])
    wd = C.work_dir('c20')
    tp = C.write_ndjson(os.path.join(wd, 'faults.ndjson'), evs)
    outp = os.path.join(wd, 'faults_bad.json')
    res = C.run_tlc('Trace_Faults', 'Trace_Faults.cfg', env={'TRACE': tp, 'OUT': outp}, workers=1, timeout=600)
    chk.add_tlc('Trace_Faults(parse classes + sanitizer runs)', res, traces=1, events=len(evs))
    if res.ok and os.path.exists(outp):
        verdict = json.load(open(outp))
        for b in verdict['bad']:
            chk.violation(f"{b['cls']}:{b['key']}", f"{b['cls']} {b['key']} {b['detail'][:400]}", b)
        for b in verdict.get('notes', []):
            chk.beyond(f"{b['key']}: which strings yield a value differs from the reference reading (exact spelling / strtod); witness (hex) {b['detail'][:80]}")
    else:
        k = res.distinct - 1
        chk.violation('faults_trace_rejected', f'Trace_Faults rejected event {k}: {evs[k] if k < len(evs) else None}', evs[k] if k < len(evs) else None)
    pc = [e for e in evs if e['e'] == 'ParseClass']
    runs = [e for e in evs if e['e'] == 'HarnessRun']
    chk.layer('conformance', sanitized_harness_runs=len(runs), harnesses=sorted({e['harness'].split()[0] for e in runs}), parse_classes=len(pc),
              strings_parsed=sum(e['n'] for e in pc), flags=' '.join(SAN))
    chk.count(evaluations=sum(e['n'] for e in pc) + sum(e['events'] for e in runs), distinct=len(pc) + len(runs))
    chk.cov['explanation'] = ('Table totality is decided by TLC on the extracted tables (Trace_Units). Everything else is observed: the conformance harnesses of the other properties '
                              '(table dumps and lookups through every enumerator, parser fuzz, tensor algebra, printing, models, directions and angles, the per-type battery) are rebuilt with '
                              'AddressSanitizer + UndefinedBehaviorSanitizer (-fno-sanitize-recover) and libstdc++ debug assertions and re-run; an uncaught exception, sanitizer report, assertion '
                              'or abnormal exit becomes a Fault event that the trace specification records as a violation. Parsers: twelve classes of byte strings (random bytes, long digit strings, '
                              'huge exponents, inf/nan spellings, hex floats, leading whitespace, embedded NUL, non-ASCII, empty / whitespace-only strings, tokens padded with whitespace on either side) against the strtof/strtod/strtold oracle. Detection power is the sanitizers\'.')
    chk.cov['rule'] = 'one event per sanitized harness run and per (parse function, input class)'
    for e in pc[:2] + runs[:3]:
        chk.sample(e)
    chk.assumptions += ['undefined behaviour that neither ASan nor UBSan nor the debug-mode standard library reports is not detected',
                        'reads of default-constructed (deliberately uninitialised) quantities are not exercised; MemorySanitizer is not used (uninstrumented libstdc++)']
    return chk.finish()
