------------------------------- MODULE Slots_proofs -------------------------------
(* Unbounded complement of MC_Slots (which explores a three-element value set): the write/read law of the slot     *)
(* store holds for ALL integer component values and all slot tuples.  Checked by tlapm (SMT back end).            *)
EXTENDS Slots, TLAPS

LEMMA SlotInRange == \A sh \in Shapes : \A n \in Names(sh) : SlotOf(sh, n) \in 1..NSlots(sh)
  BY DEF Shapes, Names, SlotOf, NSlots, Axis, Row, Col, RowCol, UpperSlot

THEOREM WriteReadAll ==
  \A sh \in Shapes : \A c \in [1..NSlots(sh) -> Int] : \A n1 \in Names(sh), n2 \in Names(sh), v \in Int :
     WriteReadOK(sh, c, n1, v, n2)
<1> SUFFICES ASSUME NEW sh \in Shapes, NEW c \in [1..NSlots(sh) -> Int], NEW n1 \in Names(sh), NEW n2 \in Names(sh), NEW v \in Int
             PROVE WriteReadOK(sh, c, n1, v, n2)
    OBVIOUS
<1>1. SlotOf(sh, n1) \in 1..NSlots(sh) /\ SlotOf(sh, n2) \in 1..NSlots(sh)
    BY SlotInRange
<1> QED BY <1>1 DEF WriteReadOK, AfterSetOne, ReadOne

(* the nine names of a symmetric dyad read a symmetric matrix, whatever the six slots hold *)
THEOREM SymmetricReadsAll ==
  \A c \in [1..6 -> Int] : \A n1 \in Names("SymmetricDyad"), n2 \in Names("SymmetricDyad") :
     (Row(n1) = Col(n2) /\ Col(n1) = Row(n2)) => ReadOne("SymmetricDyad", c, n1) = ReadOne("SymmetricDyad", c, n2)
  BY DEF Names, ReadOne, SlotOf, Row, Col, RowCol, UpperSlot

(* names alias exactly when the shape is symmetric and the names are transposes of each other *)
THEOREM AliasAll == \A sh \in Shapes : \A n1 \in Names(sh), n2 \in Names(sh) : AliasOK(sh, n1, n2)
  BY DEF Shapes, Names, AliasOK, SlotOf, Axis, Row, Col, RowCol, UpperSlot

(* a dyad built from a symmetric dyad is symmetric, for all integer components *)
THEOREM EmbedSymmetric == \A t \in [1..6 -> Int] : IsSymmetricDyad(EmbedSym(t))
  BY DEF IsSymmetricDyad, EmbedSym
=============================================================================
