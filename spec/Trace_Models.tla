------------------------------- MODULE Trace_Models -------------------------------
(* K3 for the constitutive models (C12, C13, and the model part of C14).                            *)
EXTENDS Order, Json, IOUtils, TLC, FiniteSets
E == INSTANCE Elastic
F == INSTANCE Fluid
CONSTANTS BudgetSnap, BudgetRebuild, BudgetCompose, BudgetMap
Events == ndJsonDeserialize(IOEnv.TRACE)
VARIABLES l, bad, seen
vars == <<l, bad, seen>>
Init == l = 1 /\ bad = <<>> /\ seen = [ctors |-> {}, overloads |-> {}, fluid |-> {}, cmp |-> 0, maps |-> {}]
IsEvent(e) == l <= Len(Events) /\ Events[l].e = e /\ l' = l + 1
Flag(ok, rec) == bad' = IF ok \/ Len(bad) >= 400 THEN bad ELSE Append(bad, rec)
B(x) == x = 1
(* a constructor from (k1 = x, k2 = y): the logged state snapped to the dyadic grid must satisfy the relational spec, and *)
(* each of the seven accessors must report the modulus of that state                                                      *)
TElasticCtor == LET r == Events[l] IN
  /\ IsEvent("ElasticCtor") /\ <<r.k1, r.k2>> \in E!SupportedPairs /\ r.num \in {"f", "d", "l"}
  /\ Flag(/\ r.snap <= BudgetSnap
          /\ E!CtorOK(r.k1, r.x, r.k2, r.y, r.mu, r.lam, r.SN)
          /\ \A k \in DOMAIN r.acc : E!Has(k, r.acc[k], r.mu, r.lam, r.SN),
          [cls |-> "elastic_ctor", key |-> r.k1 \o "," \o r.k2, num |-> r.num, detail |-> <<r.x, r.y, r.mu, r.lam, r.snap>>])
  /\ seen' = [seen EXCEPT !.ctors = @ \cup {<<r.k1, r.k2, r.num>>}]
TElasticStress == LET r == Events[l] IN
  /\ IsEvent("ElasticStress") /\ Len(r.eps) = 6
  /\ Flag(r.exact /\ r.out = E!StressOf(r.mu, r.lam, r.eps),
          [cls |-> "elastic_stress", key |-> r.via \o ":" \o r.ov, num |-> r.num, detail |-> <<r.mu, r.lam, r.eps, r.out>>])
  /\ seen' = [seen EXCEPT !.overloads = @ \cup {<<"stress", r.num, r.ov, r.via>>}]
TElasticStrain == LET r == Events[l] IN
  /\ IsEvent("ElasticStrain") /\ Len(r.sigma) = 6
  /\ Flag(r.snap <= BudgetSnap /\ E!IsStrainOf(r.mu, r.lam, r.sigma, r.out),
          [cls |-> "elastic_strain", key |-> r.via \o ":" \o r.ov, num |-> r.num, detail |-> <<r.mu, r.lam, r.sigma, r.out>>])
  /\ seen' = [seen EXCEPT !.overloads = @ \cup {<<"strain", r.num, r.ov, r.via>>}]
(* stubs: strain-rate-only gives zero stress / zero strain rate; the rate argument of Stress(strain, rate) is ignored *)
TStub == LET r == Events[l] IN
  /\ IsEvent("Stub")
  /\ Flag(r.zero_ok = 1 /\ r.ignored_ok = 1, [cls |-> "model_stub", key |-> r.model \o ":" \o r.via \o ":" \o r.ov, num |-> r.num, detail |-> <<>>])
  /\ seen' = [seen EXCEPT !.overloads = @ \cup {<<"stub_" \o r.model, r.num, r.ov, r.via>>}]
TFluidStress == LET r == Events[l] IN
  /\ IsEvent("FluidStress") /\ r.model \in {"compressible", "incompressible"}
  /\ Flag(r.exact /\ r.out = F!ViscousStress(r.mu, r.mub, r.d) /\ (r.model = "incompressible" => r.mub = 0),
          [cls |-> "fluid_stress", key |-> r.model \o ":" \o r.via \o ":" \o r.ov, num |-> r.num, detail |-> <<r.mu, r.mub, r.d, r.out>>])
  /\ seen' = [seen EXCEPT !.fluid = @ \cup {<<"stress", r.model, r.num, r.ov, r.via>>}]
TFluidRate == LET r == Events[l] IN
  /\ IsEvent("FluidRate")
  /\ Flag(r.snap <= BudgetSnap /\ F!IsRateOf(r.mu, r.mub, r.sigma, r.out),
          [cls |-> "fluid_strain_rate", key |-> r.model \o ":" \o r.via \o ":" \o r.ov, num |-> r.num, detail |-> <<r.mu, r.mub, r.sigma, r.out>>])
  /\ seen' = [seen EXCEPT !.fluid = @ \cup {<<"rate", r.model, r.num, r.ov, r.via>>}]
TFluidLinear == LET r == Events[l] IN
  /\ IsEvent("FluidLinear")
  /\ Flag(r.exact /\ r.fxy = F!Combine(r.a, r.fx, r.b, r.fy) /\ r.fx = F!ViscousStress(r.mu, r.mub, r.x) /\ r.fy = F!ViscousStress(r.mu, r.mub, r.y),
          [cls |-> "fluid_not_linear", key |-> r.model, num |-> r.num, detail |-> <<r.a, r.b>>])
  /\ UNCHANGED seen
TFluidOneArg == LET r == Events[l] IN
  /\ IsEvent("FluidOneArg")
  /\ Flag(r.mub_is_plus_zero = 1, [cls |-> "fluid_one_argument_bulk_not_zero", key |-> "compressible", num |-> r.num, detail |-> <<>>])
  /\ UNCHANGED seen
(* numeric layer *)
TElasticRebuild == LET r == Events[l] IN
  /\ IsEvent("ElasticRebuild") /\ r.n > 0
  /\ Flag(r.nonfinite = 0 /\ r.err_eps_kappa <= BudgetRebuild,
          [cls |-> "elastic_rebuild", key |-> r.k1 \o "," \o r.k2, num |-> r.num, detail |-> <<r.err_eps_kappa>>])
  /\ UNCHANGED seen
TCompose == LET r == Events[l] IN
  /\ IsEvent("Compose") /\ r.n > 0
  /\ Flag(r.nonfinite = 0 /\ r.err_eps_kappa <= BudgetCompose, [cls |-> "model_inverse_composition", key |-> r.model, num |-> r.num, detail |-> <<r.err_eps_kappa>>])
  /\ UNCHANGED seen
(* every (model numeric type, overload numeric type, call path) combination of the forward and inverse maps on real-valued tensors *)
(* and materials with full mantissas: within BudgetMap ulps OF THE OVERLOAD'S TYPE of c1 X + c2 tr(X) I evaluated in __float128    *)
(* from the stored parameters, at the scale of the largest term                                                                    *)
TMapReal == LET r == Events[l] IN
  /\ IsEvent("MapReal") /\ r.n > 0 /\ r.model \in {"elastic", "compressible", "incompressible"} /\ r.fn \in {"forward", "inverse"}
  /\ r.num \in {"f", "d", "l"} /\ r.ov \in {"f", "d", "l"} /\ r.via \in {"direct", "base"}
  /\ Flag(r.nonfinite = 0 /\ r.ulps <= BudgetMap, [cls |-> IF r.model = "elastic" THEN "elastic_map_real" ELSE "fluid_map_real",
                                                    key |-> r.model \o ":" \o r.fn \o ":" \o r.ov \o ":" \o r.via, num |-> r.num, detail |-> <<r.ulps>>])
  /\ seen' = [seen EXCEPT !.maps = @ \cup {<<r.model, r.fn, r.num, r.ov, r.via>>}]
(* beyond the listed properties: GetType reports the class's own enumerator through the abstract interface; every printed / serialised form *)
(* names the type and embeds the parameters' own forms in declared order; streaming equals Print()                                          *)
TModelText == LET r == Events[l] IN
  /\ IsEvent("ModelText") /\ r.model \in {"elastic", "compressible", "incompressible"} /\ r.form \in {"Print", "JSON", "XML", "YAML"}
  /\ Flag(r.type_ok = 1 /\ r.has_type_label = 1 /\ r.has_p1 = 1 /\ r.has_p2_after_p1 = 1 /\ r.stream_is_print = 1,
          [cls |-> "extra_model_text", key |-> r.model \o ":" \o r.form, num |-> r.num, detail |-> <<r.text>>])
  /\ UNCHANGED seen
(* C14 for the three model classes: lexicographic on their two stored values *)
TModelCmp == LET r == Events[l]  c == Compare(r.a, r.b) IN
  /\ IsEvent("ModelCmp") /\ Len(r.a) = Len(r.b)
  /\ Flag(/\ B(r.lt) = c.lt /\ B(r.gt) = c.gt /\ B(r.le) = c.le /\ B(r.ge) = c.ge /\ B(r.eq) = c.eq /\ B(r.ne) = c.ne
          /\ HashCongruent(r.a, r.b, B(r.heq)),
          [cls |-> "model_order", key |-> r.model, num |-> r.num, detail |-> <<r.a, r.b>>])
  /\ seen' = [seen EXCEPT !.cmp = @ + 1]
(* a copy (copy / move construction, copy / move assignment) compares equal to its source and hashes equally *)
TModelCopy == LET r == Events[l] IN
  /\ IsEvent("ModelCopy")
  /\ Flag(r.ok = 1, [cls |-> "model_order", key |-> r.model \o ":copy", num |-> r.num, detail |-> <<>>])
  /\ UNCHANGED seen
TFinish == /\ l = Len(Events) + 1 /\ l' = l + 1
           /\ JsonSerialize(IOEnv.OUT, [bad |-> bad, ctors |-> Cardinality(seen.ctors), overloads |-> Cardinality(seen.overloads),
                                         fluid |-> Cardinality(seen.fluid), cmp |-> seen.cmp, map_combinations |-> Cardinality(seen.maps),
                                         ctor_pairs_missing |-> Cardinality((E!SupportedPairs \X {"f", "d", "l"}) \ {<<<<x[1], x[2]>>, x[3]>> : x \in seen.ctors})])
           /\ UNCHANGED <<bad, seen>>
Next == TElasticCtor \/ TElasticStress \/ TElasticStrain \/ TStub \/ TFluidStress \/ TFluidRate \/ TFluidLinear \/ TFluidOneArg
        \/ TElasticRebuild \/ TCompose \/ TMapReal \/ TModelText \/ TModelCmp \/ TModelCopy \/ TFinish
Spec == Init /\ [][Next]_vars
Accepted == TLCGet("stats").diameter - 2 = Len(Events)
=============================================================================
