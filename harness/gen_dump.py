"""Generates dump_tables.cpp: prints every lookup table of every enumeration type, through the
public API where one exists and through PhQ::Internal table names (with find(), never the
unchecked lookups) otherwise.  Output: NDJSON on stdout (UTF-8)."""

PRE = r'''
#include <cmath>
#include <cstdio>
#include <cstring>
#include <cstdint>
#include <sstream>
#include <string>
#include <type_traits>
#include <vector>
#include <random>
%(includes)s
using namespace PhQ;
static std::string js(std::string_view s){ std::string o="\""; char b[8];
  for(unsigned char c: s){ if(c=='"'||c=='\\'){o+='\\';o+=(char)c;} else if(c<0x20){snprintf(b,8,"\\u%%04x",c);o+=b;} else o+=(char)c; } return o+"\""; }
template<class E> struct NameTab { E v; const char* n; };
template<class E, size_t N> static std::string nameof(const NameTab<E>(&t)[N], E v){
  for(auto& x: t) if(x.v==v) return js(x.n);
  return "\"#"+std::to_string((int)v)+"\""; }
template<class T, class=void> struct streamable: std::false_type{};
template<class T> struct streamable<T, std::void_t<decltype(std::declval<std::ostream&>() << std::declval<T>())>>: std::true_type{};
template<class E> static std::string stream_of(E v){ if constexpr(streamable<E>::value){ std::ostringstream s; s<<v; return js(s.str()); } else return "null"; }
static void dims_json(const Dimensions& d){ printf("[%%d,%%d,%%d,%%d,%%d,%%d,%%d]", (int)d.Time().Value(), (int)d.Length().Value(), (int)d.Mass().Value(),
  (int)d.ElectricCurrent().Value(), (int)d.Temperature().Value(), (int)d.SubstanceAmount().Value(), (int)d.LuminousIntensity().Value()); }
static const NameTab<UnitSystem> SYS[] = {%(systab)s};

template<class E, size_t N> static void dump_enum(const char* T, const NameTab<E>(&tab)[N]){
  // abbreviations, spellings, streaming, parse-back
  printf("{\"e\":\"Enum\",\"type\":\"%%s\",\"n_abbr\":%%zu,\"n_spell\":%%zu}\n", T, Internal::Abbreviations<E>.size(), Internal::Spellings<E>.size());
  for(auto& x: tab){
    auto it = Internal::Abbreviations<E>.find(x.v);
    bool has = it != Internal::Abbreviations<E>.end();
    std::string abbr = has ? js(it->second) : "null";
    std::string pub = has ? js(Abbreviation(x.v)) : "null";
    std::string pb = "null";
    if(has){ auto p = ParseEnumeration<E>(it->second); if(p.has_value()) pb = nameof(tab, *p); }
    printf("{\"e\":\"Enumerator\",\"type\":\"%%s\",\"name\":\"%%s\",\"val\":%%d,\"abbr\":%%s,\"abbr_pub\":%%s,\"stream\":%%s,\"parse_back\":%%s}\n",
      T, x.n, (int)x.v, abbr.c_str(), pub.c_str(), has ? stream_of(x.v).c_str() : "null", pb.c_str());
  }
  for(auto& kv: Internal::Abbreviations<E>){ bool f=false; for(auto& x: tab) f|=x.v==kv.first; if(!f) printf("{\"e\":\"ExtraKey\",\"type\":\"%%s\",\"table\":\"Abbreviations\",\"val\":%%d}\n", T,(int)kv.first); }
  for(auto& kv: Internal::Spellings<E>){
    auto p = ParseEnumeration<E>(kv.first);
    printf("{\"e\":\"Spelling\",\"type\":\"%%s\",\"text\":%%s,\"maps_to\":%%s,\"parse\":%%s}\n", T, js(kv.first).c_str(), nameof(tab, kv.second).c_str(),
      p.has_value()? nameof(tab,*p).c_str() : "null");
  }
}
template<class U, class T> static void keys(const char* k, const NameTab<U>& x){
  printf(",\"to_%%s\":%%s,\"from_%%s\":%%s", k, Internal::MapOfConversionsToStandard<U,T>.count(x.v)?"true":"false", k, Internal::MapOfConversionsFromStandard<U,T>.count(x.v)?"true":"false"); }
// the run-time dispatch tables map every enumerator to ITS OWN conversion routine: converting through the table (public Convert) and calling
// Internal::Conversion<U, u> directly must agree bit for bit, in both directions and all three numeric types
// equal, or neighbouring representable numbers (a table entry may be a differently written but equivalent routine; another unit's routine is far away)
template<class T> static bool sameb(T a, T b){ if(std::memcmp(&a,&b, sizeof(T)>10? 10 : sizeof(T))==0) return true; return a==b || a==std::nextafter(b,(T)INFINITY) || a==std::nextafter(b,-(T)INFINITY); }
template<class U, U u, class T> static void disp_one(bool& to_ok, bool& from_ok){
  if(!Internal::MapOfConversionsToStandard<U,T>.count(u) || !Internal::MapOfConversionsFromStandard<U,T>.count(u)){ to_ok=false; from_ok=false; return; }
  const T probes[4] = {(T)1, (T)-2.5L, (T)1000.125L, (T)0.3L};
  for(T x: probes){ T a=x; Internal::Conversion<U,u>::ToStandard(a); T b=Convert(x, u, Standard<U>); if(u!=Standard<U> && !sameb(a,b)) to_ok=false;
    T c=x; Internal::Conversion<U,u>::FromStandard(c); T d=Convert(x, Standard<U>, u); if(u!=Standard<U> && !sameb(c,d)) from_ok=false; } }
template<class U, U u> static void dispatch(const char* T, const char* n){ bool to_ok=true, from_ok=true; disp_one<U,u,float>(to_ok,from_ok); disp_one<U,u,double>(to_ok,from_ok); disp_one<U,u,long double>(to_ok,from_ok);
  printf("{\"e\":\"Dispatch\",\"type\":\"%%s\",\"name\":\"%%s\",\"to_ok\":%%s,\"from_ok\":%%s}\n", T, n, to_ok?"true":"false", from_ok?"true":"false"); }
template<class U, size_t N> static void dump_unit(const char* T, const NameTab<U>(&tab)[N]){
  dump_enum(T, tab);
  printf("{\"e\":\"UnitType\",\"type\":\"%%s\",\"std\":%%s,\"dims\":", T, nameof(tab, Standard<U>).c_str()); dims_json(RelatedDimensions<U>);
  printf(",\"n_to\":[%%zu,%%zu,%%zu],\"n_from\":[%%zu,%%zu,%%zu],\"n_consistent\":%%zu,\"n_related\":%%zu}\n",
    Internal::MapOfConversionsToStandard<U,float>.size(), Internal::MapOfConversionsToStandard<U,double>.size(), Internal::MapOfConversionsToStandard<U,long double>.size(),
    Internal::MapOfConversionsFromStandard<U,float>.size(), Internal::MapOfConversionsFromStandard<U,double>.size(), Internal::MapOfConversionsFromStandard<U,long double>.size(),
    Internal::ConsistentUnits<U>.size(), Internal::RelatedUnitSystems<U>.size());
  for(auto& x: tab){
    printf("{\"e\":\"UnitKeys\",\"type\":\"%%s\",\"name\":\"%%s\"", T, x.n);
    keys<U,float>("f",x); keys<U,double>("d",x); keys<U,long double>("l",x);
    auto rs = RelatedUnitSystem(x.v);
    printf(",\"related\":%%s}\n", rs.has_value()? nameof(SYS,*rs).c_str() : "null");
  }
  for(auto& s: SYS){
    auto it = Internal::ConsistentUnits<U>.find(s.v);
    if(it == Internal::ConsistentUnits<U>.end()){ printf("{\"e\":\"Consistent\",\"type\":\"%%s\",\"system\":\"%%s\",\"unit\":null,\"pub\":null}\n", T, s.n); continue; }
    printf("{\"e\":\"Consistent\",\"type\":\"%%s\",\"system\":\"%%s\",\"unit\":%%s,\"pub\":%%s}\n", T, s.n, nameof(tab,it->second).c_str(), nameof(tab, ConsistentUnit<U>(s.v)).c_str());
  }
  for(auto& kv: Internal::ConsistentUnits<U>){ bool f=false; for(auto& s: SYS) f|=s.v==kv.first; if(!f) printf("{\"e\":\"ExtraKey\",\"type\":\"%%s\",\"table\":\"ConsistentUnits\",\"val\":%%d}\n", T,(int)kv.first); }
  for(auto& kv: Internal::RelatedUnitSystems<U>){ bool f=false; for(auto& x: tab) f|=x.v==kv.first; if(!f) printf("{\"e\":\"ExtraKey\",\"type\":\"%%s\",\"table\":\"RelatedUnitSystems\",\"val\":%%d}\n", T,(int)kv.first); }
}
// non-spellings: mutate accepted spellings; oracle = linear scan over the iterated key set
template<class E> static void fuzz_enum(const char* T, uint64_t seed, int n){
  std::vector<std::string> keysv; for(auto& kv: Internal::Spellings<E>) keysv.emplace_back(kv.first);
  auto member=[&](const std::string& s){ for(auto& k: keysv) if(k==s) return true; return false; };
  std::mt19937_64 g(seed); long cnt[8]={0}, hit[8]={0}, acc[8]={0}; std::string witness[8];
  if(keysv.empty()) return;
  for(int i=0;i<n;i++){
    std::string s = keysv[g()%%keysv.size()]; int cls = g()%%8;
    switch(cls){
      case 0: { size_t p=g()%%s.size(); unsigned char c=s[p]; if(std::isalpha(c)) s[p]= std::islower(c)? std::toupper(c): std::tolower(c); else s[p]='_'; } break;
      case 1: s = " " + s; break;
      case 2: s += " "; break;
      case 3: if(s.size()>1) s.resize(s.size()-1); else s.clear(); break;
      case 4: s = s.substr(std::min<size_t>(1,s.size())); break;
      case 5: { size_t p=g()%%(s.size()+1); s.insert(p,1,(char)(g()%%256)); } break;
      case 6: { s.clear(); int len=g()%%6; for(int k=0;k<len;k++) s+=(char)(g()%%256); } break;
      case 7: { s += '\0'; s += "x"; } break;
    }
    bool m = member(s); auto p = ParseEnumeration<E>(std::string_view(s));
    cnt[cls]++; if(m) acc[cls]++;
    if(p.has_value() != m){ if(!hit[cls]) witness[cls]=s; hit[cls]++; }
  }
  for(int c=0;c<8;c++) printf("{\"e\":\"NonSpelling\",\"type\":\"%%s\",\"cls\":%%d,\"n\":%%ld,\"accepted\":%%ld,\"wrong\":%%ld,\"witness\":%%s}\n", T,c,cnt[c],acc[c],hit[c], js(witness[c]).c_str());
}
'''

QT = r'''
template<template<class> class Q> static void qtype(const char* name, const char* shape, const char* unit){
  printf("{\"e\":\"QType\",\"name\":\"%s\",\"shape\":\"%s\",\"unit_type\":%s,\"dims\":", name, shape, unit[0]? (std::string("\"")+unit+"\"").c_str() : "null");
  dims_json(Q<double>::Dimensions()); printf(",\"dims_f\":"); dims_json(Q<float>::Dimensions()); printf(",\"dims_l\":"); dims_json(Q<long double>::Dimensions());
  printf(",\"sizeof\":[%zu,%zu,%zu]}\n", sizeof(Q<float>), sizeof(Q<double>), sizeof(Q<long double>));
}
'''


def sources(units, others, quantities, nparts=8):
    """Several translation units (compiled in parallel) + a main."""
    sysnames = [o for o in others if o['type'] == 'UnitSystem'][0]['names']
    systab = ','.join('{UnitSystem::%s,"%s"}' % (n, n) for n in sysnames)
    qitems = sorted(quantities.items())
    parts = []
    for k in range(nparts):
        us = units[k::nparts]
        qs = qitems[k::nparts]
        os_ = others if k == 0 else []
        inc = ['#include "PhQ/Unit/%s"' % u['header'] for u in us]
        inc += ['#include "PhQ/%s"' % q['header'] for _, q in qs]
        inc += ['#include "PhQ/ConstitutiveModel.hpp"', '#include "PhQ/UnitSystem.hpp"', '#include "PhQ/Unit.hpp"']
        out = [PRE % {'includes': '\n'.join(sorted(set(inc))), 'systab': systab}, QT]
        for u in us:
            T = u['type']
            out.append('static const NameTab<Unit::%s> TAB_%s[] = {%s};' % (
                T, T, ','.join('{Unit::%s::%s,"%s"}' % (T, n, n) for n in u['names'])))
        for o in os_:
            cpp = o['cpp'].replace('PhQ::', '')
            out.append('static const NameTab<%s> TAB_%s[] = {%s};' % (
                cpp, o['type'], ','.join('{%s::%s,"%s"}' % (cpp, n, n) for n in o['names'])))
        out.append('void part_%d(int mode, uint64_t seed, int n){' % k)
        out.append('  if(mode==1){')
        for u in us:
            out.append('    fuzz_enum<Unit::%s>("%s", seed, n);' % (u['type'], u['type']))
        for o in os_:
            out.append('    fuzz_enum<%s>("%s", seed, n);' % (o['cpp'].replace('PhQ::', ''), o['type']))
        out.append('    return; }')
        for u in us:
            out.append('  dump_unit("%s", TAB_%s);' % (u['type'], u['type']))
            for n in u['names']:
                out.append('  dispatch<Unit::%s, Unit::%s::%s>("%s", "%s");' % (u['type'], u['type'], n, u['type'], n))
        for o in os_:
            out.append('  dump_enum("%s", TAB_%s);' % (o['type'], o['type']))
        for name, q in qs:
            out.append('  qtype<%s>("%s","%s","%s");' % (name, name, q['shape'], q['unit'] or ''))
        out.append('}')
        parts.append(('dump_part%d.cpp' % k, '\n'.join(out) + '\n'))
    m = ['#include <cstdint>', '#include <cstdlib>', '#include <string>']
    m += ['void part_%d(int, uint64_t, int);' % k for k in range(nparts)]
    m.append('int main(int argc, char** argv){ int mode=0; uint64_t seed=0; int n=0;')
    m.append('  if(argc>3 && std::string(argv[1])=="fuzz"){ mode=1; seed=strtoull(argv[2],0,10); n=atoi(argv[3]); }')
    m += ['  part_%d(mode, seed, n);' % k for k in range(nparts)]
    m.append('  return 0; }')
    parts.append(('dump_main.cpp', '\n'.join(m) + '\n'))
    return parts
