"""Direction / angle harness: build, run, validate with Trace_Dirs (shared by C10 and C11)."""
import json
import os
import sys

from . import common as C, relgraph as G

sys.path.insert(0, C.HARNESS)
import gen_dirs  # noqa: E402


def run(mode, n):
    g = G.graph()
    parts, npaths, nkernels = gen_dirs.sources(g['qs'], g['members'])
    srcs = [C.gen_file(nm, t) for nm, t in parts]
    exe = C.compile_cxx('dirs', srcs, flags=['-std=c++17', '-O1', '-fno-fast-math', '-ffp-contract=off', '-w'], libs=['-lquadmath'])
    wd = C.work_dir('dirs')
    tp = os.path.join(wd, f'{mode}.ndjson')
    with open(tp, 'wb') as f:
        f.write(C.run([exe, mode, str(C.SEED), str(n)], timeout=1700).stdout)
    evs = [json.loads(x) for x in open(tp)]
    outp = os.path.join(wd, f'{mode}_bad.json')
    res = C.run_tlc('Trace_Dirs', 'Trace_Dirs.cfg', env={'TRACE': tp, 'OUT': outp}, workers=1, timeout=900)
    ok = res.ok and os.path.exists(outp)
    return {'events': evs, 'tlc': res, 'result': json.load(open(outp)) if ok else None, 'npaths': npaths, 'nkernels': nkernels}


def report(chk, name, out):
    evs, res = out['events'], out['tlc']
    chk.add_tlc(name, res, traces=1, events=len(evs))
    if out['result'] is None:
        k = res.distinct - 1
        chk.violation('dirs_trace_rejected', f'Trace_Dirs rejected event {k}: {evs[k] if k < len(evs) else None}', evs[k] if k < len(evs) else None)
        return
    for b in out['result']['bad']:
        ev = [e for e in evs if (e.get('path') == b['key'] or e.get('type') == b['key'] or (e.get('kernel', '') + ':' + e.get('geom', 'axes')) == b['key']) and e.get('num', e.get('to')) == b['num']][:1]
        chk.violation(f"{b['cls']}:{b['key']}:{b['num']}", f"{b['cls']} {b['key']} num={b['num']} {json.dumps(ev)[:500]}", ev[0] if ev else b)
