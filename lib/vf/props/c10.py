"""C10 — directions are unit vectors; magnitude times direction rebuilds the vector."""
from .. import common as C, dirsrun as D


def run(tier):
    chk = C.Check('C10', tier)
    out = D.run('dirs', 4000 if tier == 'quick' else 200000)
    D.report(chk, 'Trace_Dirs(direction construction paths, vector quantities)', out)
    evs = out['events']
    paths = [e for e in evs if e['e'] == 'DirPath']
    vq = [e for e in evs if e['e'] == 'VecQuantity']
    chk.layer('A+B', construction_paths=out['npaths'], path_events=len(paths), vector_quantity_events=len(vq),
              vectors_per_path_and_type=paths[0]['n'] if paths else 0,
              worst={k: max(e[k] for e in paths) for k in ('len_ulps', 'par_ulps', 'resc_ulps')},
              worst_recompose=max([e['recompose_ulps'] for e in vq] or [0]),
              note='exact sub-domain inside every path: zero -> exactly zero, axis-aligned -> exactly +-e_i at five magnitudes, power-of-two rescaling bit-identical')
    chk.count(evaluations=sum(e['n'] for e in paths) + sum(e['n'] for e in vq), distinct=len(evs))
    chk.cov['rule'] = ('one abstract event per (construction path, numeric type): components/array/raw vector/member/Set overloads/each vector quantity (constructor and '
                       'member)/2-D<->3-D conversion/cross product/precision cast, in 2-D and 3-D; random vectors over the whole range in which squares neither '
                       'overflow nor underflow, near-degenerate ones included; 17 vector quantities: norm, typed accessors, magnitude x direction')
    for e in paths[:2] + vq[:1] + [e for e in evs if e['e'] in ('DirCross', 'DirCast')][:2]:
        chk.sample(e)
    chk.assumptions += ['reference lengths and cross products evaluated in __float128',
                        'API-surface facts (no SetValue on directions; Magnitude() returns the scalar type with equal dimension set) are covered by the relation graph of C03']
    return chk.finish()
