SPECIFICATION Spec
CONSTANTS BudgetEquiv = 4  BudgetInverse = 4  BudgetDef = 4
POSTCONDITION Accepted
CHECK_DEADLOCK FALSE
