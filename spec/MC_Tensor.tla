------------------------------- MODULE MC_Tensor -------------------------------
(* The index-notation specification is not vacuous: its own textbook identities hold for every    *)
(* dyad over {-1,0,1} reachable by single-component steps (exhaustive: 19 683 dyads) and every      *)
(* vector pair over {-1,0,1}.                                                                        *)
EXTENDS Tensor, TLC, FiniteSets
CONSTANTS ScopeA, ScopeFull
VARIABLES A, u, v
Init == A = ZeroDyad /\ u = <<0, 0, 0>> /\ v = <<0, 0, 0>>
Next == \/ \E k \in 1..9, x \in -1..1 : A' = [A EXCEPT ![k] = x] /\ UNCHANGED <<u, v>>
        \/ \E k \in 1..3, x \in -1..1 : u' = [u EXCEPT ![k] = x] /\ UNCHANGED <<A, v>>
        \/ \E k \in 1..3, x \in -1..1 : v' = [v EXCEPT ![k] = x] /\ UNCHANGED <<A, u>>
Spec == Init /\ [][Next]_<<A, u, v>>
AdjugateLaw   == MatMul(A, Adjugate(A)) = DScaleT(Det(A), Identity) /\ MatMul(Adjugate(A), A) = DScaleT(Det(A), Identity)
DetTranspose  == Det(Transpose(A)) = Det(A)
CrossAnti     == Cross(u, v) = VScale(-1, Cross(v, u)) /\ Dot(u, Cross(u, v)) = 0
DyadicTrace   == Trace(Dyadic(u, v)) = Dot(u, v)
MatVecDyadic  == MatVec(Dyadic(u, v), u) = VScale(Dot(v, u), u)
SymRoundTrip  == IsSymmetric(DyadAdd(A, Transpose(A))) /\ SymEmbed(SymOfDyad(DyadAdd(A, Transpose(A)))) = DyadAdd(A, Transpose(A))
TransposeMul  == Transpose(MatMul(A, Dyadic(u, v))) = MatMul(Transpose(Dyadic(u, v)), Transpose(A))
(* scope: A over the whole grid with u = v = 0, or A restricted to <= 3 non-zero entries with any u, v *)
NZ(s) == Cardinality({k \in DOMAIN s : s[k] # 0})
Scope == (NZ(u) = 0 /\ NZ(v) = 0 /\ NZ(A) <= ScopeFull) \/ NZ(A) <= ScopeA
=============================================================================
