------------------------------- MODULE MC_Theory -------------------------------
(* TLC evaluates ModelsOK (every theory state satisfies every named and auxiliary definition exactly and is      *)
(* generic) and hands the states to the harness as JSON: the real library is then evaluated AT THE SPEC'S STATES  *)
(* (K2: specification states replayed on the code).                                                               *)
EXTENDS Theory, Json, IOUtils, SequencesExt
VARIABLE done
Init == done = FALSE
Next == /\ ~done /\ done' = TRUE
        /\ JsonSerialize(IOEnv.OUT, [states |-> TheoryStates, vars |-> SetToSeq(TheoryVars), formulas |-> Cardinality(TheoryFormulas)])
Spec == Init /\ [][Next]_done
Models == ModelsOK
(* every variable occurs in a formula with at least one other variable, and no formula is vacuous *)
NonVacuous == \A d \in TheoryFormulas : Len(d.args) >= 1 /\ (d.form = "mono" => Len(d.deg2) = Len(d.args)) /\ (d.form = "linear" => Len(d.coef) = Len(d.args))
=============================================================================
