------------------------------- MODULE Trace_Dirs -------------------------------
(* C10 and C11 as a small specification plus acceptance of abstract events.                        *)
(*                                                                                                 *)
(* Direction: every construction path is an action of the same abstract machine: it maps a finite  *)
(* vector whose squared length neither overflows nor underflows to a unit vector (length 1 within  *)
(* BudgetLen ulps) parallel to and pointing the same way as the input, invariant under rescaling   *)
(* by powers of two exactly and by other positive factors to rounding; the zero vector maps to     *)
(* exactly zero, an axis-aligned vector to exactly +-e_i.  No path may skip normalisation.         *)
(*                                                                                                 *)
(* Angle: a total function on pairs of non-zero finite vectors with result class InRange = [0,pi]; *)
(* NaN and OutOfRange are not transitions of the specification.  Symmetric, independent of the     *)
(* lengths, exact on axis-aligned pairs (0, pi/2, pi), and within the conditioning of the arc      *)
(* cosine of atan2(|a x b|, a . b).                                                                *)
EXTENDS Integers, Sequences, FiniteSets, Json, IOUtils, TLC
CONSTANTS BudgetLen, BudgetParallel, BudgetRescale, BudgetRecompose, BudgetOrth
Events == ndJsonDeserialize(IOEnv.TRACE)
Geoms == {"parallel", "antiparallel", "nearly_parallel", "nearly_antiparallel", "orthogonal", "generic"}
VARIABLES l, bad, paths, kernels
vars == <<l, bad, paths, kernels>>
Init == l = 1 /\ bad = <<>> /\ paths = {} /\ kernels = {}
IsEvent(e) == l <= Len(Events) /\ Events[l].e = e /\ l' = l + 1
Fails(checks) == SelectSeq(checks, LAMBDA c : ~c[1])
Judge(checks, key, num) == bad' = IF Len(bad) >= 400 THEN bad ELSE
        bad \o [i \in 1..Len(Fails(checks)) |-> [cls |-> Fails(checks)[i][2], key |-> key, num |-> num]]
TDirPath == LET r == Events[l] IN
  /\ IsEvent("DirPath") /\ r.dim \in {2, 3} /\ r.n > 0
  /\ Judge(<< <<r.nonfinite = 0, "direction_nonfinite">>, <<r.len_ulps <= BudgetLen, "direction_not_unit">>,
              <<r.par_ulps <= BudgetParallel, "direction_not_parallel">>, <<r.wrong_way = 0, "direction_wrong_way">>,
              <<r.pow2_diff = 0, "direction_not_scale_invariant_pow2">>, <<r.resc_ulps <= BudgetRescale, "direction_not_scale_invariant">>,
              <<r.zero_bad = 0, "direction_of_zero_not_zero">>, <<r.axis_bad = 0, "direction_of_axis_not_exact">> >>, r.path, r.num)
  /\ paths' = paths \cup {<<r.path, r.num>>} /\ UNCHANGED kernels
TDirCross == LET r == Events[l] IN
  /\ IsEvent("DirCross") /\ r.n > 0
  /\ Judge(<< <<r.nonfinite = 0, "direction_nonfinite">>, <<r.len_ulps <= BudgetLen, "direction_not_unit">>,
              <<r.orth_eps <= BudgetOrth, "cross_not_orthogonal">> >>, "cross", r.num)
  /\ paths' = paths \cup {<<"cross", r.num>>} /\ UNCHANGED kernels
TDirCast == LET r == Events[l] IN
  /\ IsEvent("DirCast") /\ r.n > 0 /\ r.from # r.to
  /\ Judge(<< <<r.len_ulps_3d <= BudgetLen /\ r.len_ulps_2d <= BudgetLen, "direction_not_unit">> >>, "cast_" \o r.from, r.to)
  /\ paths' = paths \cup {<<"cast_" \o r.from, r.to>>} /\ UNCHANGED kernels
TVecQuantity == LET r == Events[l] IN
  /\ IsEvent("VecQuantity") /\ r.n > 0
  /\ Judge(<< <<r.mag_ulps <= BudgetLen, "magnitude_not_euclidean_norm">>, <<r.slot_bad = 0, "component_accessor_wrong_slot">>,
              <<r.recompose_ulps <= BudgetRecompose, "magnitude_times_direction">> >>, r.type, r.num)
  /\ paths' = paths \cup {<<"quantity_" \o r.type, r.num>>} /\ UNCHANGED kernels
(* C11: result class of every (kernel, geometry class) *)
TAngleClass == LET r == Events[l] IN
  /\ IsEvent("AngleClass") /\ r.geom \in Geoms /\ r.n > 0
  /\ Judge(<< <<r.nan = 0, "angle_nan">>, <<r.out_of_range = 0, "angle_out_of_range">>, <<r.asymmetric = 0, "angle_asymmetric">>,
              <<r.scale_dependent = 0, "angle_depends_on_length">>, <<r.err_over_tol_x1000 <= 1000, "angle_inaccurate">> >>,
           r.kernel \o ":" \o r.geom, r.num)
  /\ kernels' = kernels \cup {<<r.kernel, r.num, r.geom>>} /\ UNCHANGED paths
TAngleAxes == LET r == Events[l] IN
  /\ IsEvent("AngleAxes") /\ r.n > 0
  /\ Judge(<< <<r.bad = 0, "angle_axes_not_exact">> >>, r.kernel \o ":axes", r.num)
  /\ UNCHANGED <<paths, kernels>>
(* a direction constructed without an argument, or by Zero(), is exactly the zero vector (every component +0) and reports length zero; *)
(* the Magnitude() and MagnitudeSquared() members of a direction built from a non-zero vector report one within BudgetLen ulps (twice for the square) *)
TDirZero == LET r == Events[l] IN
  /\ IsEvent("DirZero") /\ r.num \in {"f", "d", "l"}
  /\ Judge(<< <<r.default3 = 1 /\ r.zero3 = 1 /\ r.default2 = 1 /\ r.zero2 = 1 /\ r.mag3 = 1 /\ r.mag2 = 1, "direction_of_zero_not_zero">> >>, "default constructor / Zero()", r.num)
  /\ UNCHANGED <<paths, kernels>>
TDirMagnitude == LET r == Events[l] IN
  /\ IsEvent("DirMagnitude") /\ r.n > 0
  /\ Judge(<< <<r.ulps3 <= 2 * BudgetLen /\ r.ulps2 <= 2 * BudgetLen, "direction_not_unit">> >>, "Magnitude() / MagnitudeSquared()", r.num)
  /\ UNCHANGED <<paths, kernels>>
TFinish == /\ l = Len(Events) + 1 /\ l' = l + 1
           /\ JsonSerialize(IOEnv.OUT, [bad |-> bad, paths |-> Cardinality(paths), kernel_classes |-> Cardinality(kernels),
                 kernels_missing_a_class |-> Cardinality({k \in {<<x[1], x[2]>> : x \in kernels} : \E gm \in Geoms : <<k[1], k[2], gm>> \notin kernels})])
           /\ UNCHANGED <<bad, paths, kernels>>
Next == TDirPath \/ TDirCross \/ TDirCast \/ TVecQuantity \/ TAngleClass \/ TAngleAxes \/ TDirZero \/ TDirMagnitude \/ TFinish
Spec == Init /\ [][Next]_vars
Accepted == TLCGet("stats").diameter - 2 = Len(Events)
=============================================================================
