--------------------------- MODULE Elastic_proofs ---------------------------
(* C12, unbounded part: the relational constructor specification of Elastic.tla is well posed.    *)
(* For each supported modulus pair at most one admissible state (mu, lambda) has the two given    *)
(* modulus values, so "the same material from any modulus pair" has exactly one meaning and the   *)
(* oracle that judges the implementation's twenty closed forms is unambiguous.  Proved here for   *)
(* ALL integers for seven pairs with linear defining relations; the pairs with Young's modulus  *)
(* or the Poisson ratio (bilinear / quadratic relations, where the admissibility condition selects *)
(* the root) are beyond the SMT back end; ALL twenty pairs are model-checked exhaustively on a     *)
(* bounded scope by MC_Elastic, which also exhibits the one degenerate corner (lambda = nu = 0).   *)
EXTENDS Elastic, TLAPS

THEOREM Unique_G_Ks == \A x, y, mu, lam, mu2, lam2 \in Int, SN \in Nat \ {0} :
    CtorOK("G", x, "Ks", y, mu, lam, SN) /\ CtorOK("G", x, "Ks", y, mu2, lam2, SN) => mu = mu2 /\ lam = lam2
  BY DEF CtorOK, Has, Admissible
THEOREM Unique_G_Kt == \A x, y, mu, lam, mu2, lam2 \in Int, SN \in Nat \ {0} :
    CtorOK("G", x, "Kt", y, mu, lam, SN) /\ CtorOK("G", x, "Kt", y, mu2, lam2, SN) => mu = mu2 /\ lam = lam2
  BY DEF CtorOK, Has, Admissible
THEOREM Unique_G_L == \A x, y, mu, lam, mu2, lam2 \in Int, SN \in Nat \ {0} :
    CtorOK("G", x, "L", y, mu, lam, SN) /\ CtorOK("G", x, "L", y, mu2, lam2, SN) => mu = mu2 /\ lam = lam2
  BY DEF CtorOK, Has, Admissible
THEOREM Unique_G_M == \A x, y, mu, lam, mu2, lam2 \in Int, SN \in Nat \ {0} :
    CtorOK("G", x, "M", y, mu, lam, SN) /\ CtorOK("G", x, "M", y, mu2, lam2, SN) => mu = mu2 /\ lam = lam2
  BY DEF CtorOK, Has, Admissible
THEOREM Unique_Ks_L == \A x, y, mu, lam, mu2, lam2 \in Int, SN \in Nat \ {0} :
    CtorOK("Ks", x, "L", y, mu, lam, SN) /\ CtorOK("Ks", x, "L", y, mu2, lam2, SN) => mu = mu2 /\ lam = lam2
  BY DEF CtorOK, Has, Admissible
THEOREM Unique_Kt_L == \A x, y, mu, lam, mu2, lam2 \in Int, SN \in Nat \ {0} :
    CtorOK("Kt", x, "L", y, mu, lam, SN) /\ CtorOK("Kt", x, "L", y, mu2, lam2, SN) => mu = mu2 /\ lam = lam2
  BY DEF CtorOK, Has, Admissible
THEOREM Unique_L_M == \A x, y, mu, lam, mu2, lam2 \in Int, SN \in Nat \ {0} :
    CtorOK("L", x, "M", y, mu, lam, SN) /\ CtorOK("L", x, "M", y, mu2, lam2, SN) => mu = mu2 /\ lam = lam2
  BY DEF CtorOK, Has, Admissible
=============================================================================
