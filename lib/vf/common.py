"""Shared machinery of the phq verification framework: paths, cached harness builds, TLC runs,
evidence files, known findings.  Python 3 standard library only."""
import fcntl
import hashlib
import concurrent.futures as cf
import json
import threading
import os
import re
import shutil
import subprocess
import sys
import time
import uuid

VERIF = os.path.dirname(os.path.dirname(os.path.dirname(os.path.abspath(__file__))))
ROOT = os.environ.get('PHQ_ROOT', '/repo')
INC = os.path.join(ROOT, 'include')
BUILD = os.environ.get('VERIF_BUILD', os.path.join(VERIF, 'build'))
SPEC = os.path.join(VERIF, 'spec')
HARNESS = os.path.join(VERIF, 'harness')
EVIDENCE = os.path.join(VERIF, 'evidence')
REPLAYS = os.path.join(EVIDENCE, 'replays')
JAR = '/opt/veriftools/tla/tla2tools.jar:/opt/veriftools/tla/CommunityModules-deps.jar'
SEED = int(os.environ.get('VERIF_SEED', '20260926') or 0)
NCPU = os.cpu_count() or 4


class ToolError(Exception):
    """The machinery failed (build error, TLC parse error, timeout): exit 2, never a verdict."""


def log(*a):
    print(*a, file=sys.stderr, flush=True)


# ------------------------------------------------------------------ include tree hash / cache
_inc_hash = None


def include_hash():
    global _inc_hash
    if _inc_hash is None:
        h = hashlib.sha256()
        for d, dirs, files in sorted(os.walk(INC)):
            dirs.sort()
            for f in sorted(files):
                p = os.path.join(d, f)
                h.update(os.path.relpath(p, INC).encode())
                with open(p, 'rb') as fh:
                    h.update(fh.read())
        _inc_hash = h.hexdigest()[:16]
    return _inc_hash


def cache_dir(*parts):
    """A directory under build/ keyed by the include-tree hash (and extra parts)."""
    d = os.path.join(BUILD, 'cache', include_hash(), *parts)
    os.makedirs(d, exist_ok=True)
    return d


def prune_cache(keep=3):
    """Keep the most recently used include-hash directories only (disk is limited)."""
    base = os.path.join(BUILD, 'cache')
    if not os.path.isdir(base):
        return
    ds = sorted((os.path.getmtime(os.path.join(base, d)), d) for d in os.listdir(base))
    cur = include_hash()
    for _, d in ds[:-keep]:
        if d != cur:
            shutil.rmtree(os.path.join(base, d), ignore_errors=True)


class Lock:
    def __init__(self, path):
        self.path = path

    def __enter__(self):
        os.makedirs(os.path.dirname(self.path), exist_ok=True)
        self.f = open(self.path, 'w')
        fcntl.flock(self.f, fcntl.LOCK_EX)
        return self

    def __exit__(self, *a):
        fcntl.flock(self.f, fcntl.LOCK_UN)
        self.f.close()


def sha(*chunks):
    h = hashlib.sha256()
    for c in chunks:
        h.update(c if isinstance(c, bytes) else str(c).encode())
    return h.hexdigest()[:16]


STRICT = ['-std=c++17', '-O2', '-fno-fast-math', '-ffp-contract=off', '-w']


_COMPILE_SEM = threading.BoundedSemaphore(int(os.environ.get('VERIF_COMPILE_JOBS', '0')) or NCPU)


def compile_cxx(name, sources, flags=None, compiler='g++', libs=(), extra_inc=(), timeout=3000,
                allow_fail=False):
    """Compile one binary from source files.  Each source is its own TU, compiled in parallel; objects are
    cached by (include-tree hash, compiler, flags, source text), the binary by the set of objects."""
    flags = list(STRICT if flags is None else flags)
    texts = [open(s, 'rb').read() for s in sources]
    def hdrs(t):   # harness headers this TU includes (its object must be rebuilt when they change)
        names = sorted(set(re.findall(rb'#include "([\w.]+\.hpp)"', t)))
        return sha(*[open(os.path.join(HARNESS, n.decode()), 'rb').read() for n in names if os.path.exists(os.path.join(HARNESS, n.decode()))])
    okeys = [sha(compiler, ' '.join(flags), ' '.join(extra_inc), hdrs(t), t) for t in texts]
    key = sha(' '.join(libs), *okeys)
    d = cache_dir('bin')
    od = cache_dir('obj')
    out = os.path.join(d, f'{name}.{key}')
    with Lock(out + '.lock'):
        if os.path.exists(out):
            os.utime(os.path.join(BUILD, 'cache', include_hash()))
            return out
        t0 = time.time()
        incs = ['-I' + INC, '-I' + HARNESS] + ['-I' + i for i in extra_inc]
        objs, procs = [], []
        for s, k in zip(sources, okeys):
            o = os.path.join(od, k + '.o')
            objs.append(o)
            if os.path.exists(o):
                continue
            cmd = [compiler] + flags + incs + ['-c', s, '-o', o + f'.{os.getpid()}.tmp']
            procs.append((o, cmd))
        errs = []

        def compile_one(oc):
            # at most NCPU compiler processes per check process, however many harnesses it builds at once (sanitized TUs need ~2 GB each)
            o, cmd = oc
            with _COMPILE_SEM:
                p = subprocess.Popen(cmd, stdout=subprocess.PIPE, stderr=subprocess.STDOUT)
                try:
                    txt, _ = p.communicate(timeout=timeout)
                except subprocess.TimeoutExpired:
                    p.kill()
                    return o, None, b'timeout'
            return o, p.returncode, txt
        if procs:
            with cf.ThreadPoolExecutor(len(procs)) as ex:
                results = list(ex.map(compile_one, procs))
        else:
            results = []
        for o, rc, txt in results:
            if rc is None:
                raise ToolError(f'compile timeout: {name}')
            tmp = o + f'.{os.getpid()}.tmp'
            if rc != 0:
                errs.append(txt.decode(errors='replace'))
                if os.path.exists(tmp):
                    os.remove(tmp)
            else:
                os.rename(tmp, o)
        if errs:
            if allow_fail:
                return ('FAILED', '\n'.join(errs))
            raise ToolError(f'compile failed: {name}\n' + '\n'.join(e[-3000:] for e in errs[:2]))
        cmd = [compiler] + [f for f in flags if f.startswith('-fsanitize') or f in ('-pthread', '-static-libasan')] + objs + ['-o', out + '.tmp'] + list(libs)
        r = subprocess.run(cmd, stdout=subprocess.PIPE, stderr=subprocess.STDOUT)
        if r.returncode != 0:
            if allow_fail:
                return ('FAILED', r.stdout.decode(errors='replace'))
            raise ToolError(f'link failed: {name}\n' + r.stdout.decode(errors='replace')[-4000:])
        os.rename(out + '.tmp', out)
        log(f'[build] {name} ({compiler}) {len(procs)}/{len(sources)} TUs compiled, {time.time() - t0:.1f}s')
    return out


def gen_file(name, text):
    """Write generated source into the cache (content-addressed) and return its path."""
    d = cache_dir('gen')
    p = os.path.join(d, f'{sha(text)}_{name}')
    if not os.path.exists(p):
        tmp = p + f'.{os.getpid()}.tmp'
        with open(tmp, 'w') as f:
            f.write(text)
        os.rename(tmp, p)
    return p


def run(cmd, timeout=1800, env=None, stdin=None, check=True, cwd=None):
    e = dict(os.environ)
    if env:
        e.update(env)
    try:
        r = subprocess.run(cmd, stdout=subprocess.PIPE, stderr=subprocess.PIPE, timeout=timeout, env=e,
                           input=stdin, cwd=cwd)
    except subprocess.TimeoutExpired:
        raise ToolError(f'timeout after {timeout}s: {cmd[0]}')
    if check and r.returncode != 0:
        raise ToolError(f'command failed ({r.returncode}): {" ".join(cmd)[:300]}\n'
                        + r.stderr.decode(errors='replace')[-3000:])
    return r


def work_dir(tag):
    d = os.path.join(BUILD, 'work', f'{tag}.{os.getpid()}.{uuid.uuid4().hex[:6]}')
    os.makedirs(d, exist_ok=True)
    return d


# ------------------------------------------------------------------ TLC
class TLCResult:
    def __init__(self):
        self.ok = False
        self.generated = 0
        self.distinct = 0
        self.depth = 0
        self.out = ''
        self.violated = None      # name of violated invariant / property
        self.printed = []         # PrintT outputs (raw lines)
        self.coverage = {}        # action -> (taken, generated)
        self.postcondition_failed = False
        self.wall = 0.0


def run_tlc(module, cfg, env=None, workers=1, simulate=None, depth=None, coverage=False, timeout=1500,
            extra=(), heap='8g', deadlock=False, search_path=None, dfs=False):
    """Run TLC on spec/<module>.tla with spec/<cfg>.  Returns TLCResult; raises ToolError on parse
    errors, crashes, timeouts (exit 2 of the check)."""
    t0 = time.time()
    meta = work_dir('tlc')
    sp = search_path or SPEC
    java = ['java', '-XX:+UseParallelGC', f'-Xmx{heap}', '-Dfile.encoding=UTF-8', f'-DTLA-Library={sp}']
    if dfs:
        java.append('-Dtlc2.tool.queue.IStateQueue=StateDeque')
    cmd = java + ['-cp', JAR, 'tlc2.TLC', '-workers', str(workers), '-metadir', meta, '-noGenerateSpecTE',
                  '-config', os.path.join(sp, cfg)]
    if simulate:
        cmd += ['-simulate', f'num={simulate}']
    if depth:
        cmd += ['-depth', str(depth)]
    if coverage:
        cmd += ['-coverage', '1']
    if not deadlock:
        pass
    cmd += list(extra) + [os.path.join(sp, module + '.tla')]
    e = dict(os.environ)
    e.pop('JAVA_TOOL_OPTIONS', None)
    if env:
        e.update({k: str(v) for k, v in env.items()})
    try:
        r = subprocess.run(cmd, stdout=subprocess.PIPE, stderr=subprocess.STDOUT, timeout=timeout, env=e, cwd=meta)
    except subprocess.TimeoutExpired:
        shutil.rmtree(meta, ignore_errors=True)
        raise ToolError(f'TLC timeout after {timeout}s on {module}/{cfg}')
    shutil.rmtree(meta, ignore_errors=True)
    out = r.stdout.decode(errors='replace')
    res = TLCResult()
    res.out = out
    res.wall = time.time() - t0
    m = None
    for m in re.finditer(r'(\d+) states generated, (\d+) distinct states found', out):
        pass
    if m:
        res.generated, res.distinct = int(m.group(1)), int(m.group(2))
    if simulate:
        m = re.search(r'The number of states generated: (\d+)', out)
        if m:
            res.generated = int(m.group(1))
            res.distinct = int(m.group(1))
    m = re.search(r'The depth of the complete state graph search is (\d+)', out)
    if m:
        res.depth = int(m.group(1))
    for ln in out.splitlines():
        if ln.startswith('<<"') or ln.startswith('"'):
            res.printed.append(ln)
    for m in re.finditer(r'^<(\w+) line \d+, col \d+ to line \d+, col \d+ of module (\w+)>: (\d+):(\d+)', out, re.M):
        res.coverage[m.group(1)] = (int(m.group(3)), int(m.group(4)))
    m = re.search(r'Invariant (\w+) is violated', out) or re.search(r'The invariant of (\w+) is equal to FALSE', out)
    if m:
        res.violated = m.group(1)
    m = re.search(r'Action property (\w+) is violated|Temporal properties were violated', out)
    if m and not res.violated:
        res.violated = m.group(1) or 'temporal'
    if 'Deadlock reached' in out and not res.violated:
        res.violated = 'Deadlock'
    if re.search(r'[Pp]ost-?condition .*(violated|false)|POSTCONDITION', out) and 'violated' in out:
        res.postcondition_failed = bool(re.search(r'ost-?condition', out))
    bad = ('Parsing or semantic analysis failed' in out or 'TLC threw an unexpected exception' in out
           or 'Error: TLC' in out and 'Invariant' not in out and 'violated' not in out
           or 'java.lang.' in out and 'Exception' in out and 'violated' not in out)
    if bad or (r.returncode not in (0, 12, 13, 10, 11) and not res.violated and not res.postcondition_failed):
        raise ToolError(f'TLC failed on {module}/{cfg} (exit {r.returncode}):\n' + out[-5000:])
    res.ok = r.returncode == 0 and not res.violated and not res.postcondition_failed
    return res


def run_tlaps(main, deps=(), timeout=600):
    """tlapm on spec/<main>.tla (with spec/<deps> copied next to it) in a scratch directory; returns the number of proof obligations,
    all of which must be proved — anything else is a tool error (the proofs are about the specification, not about the tree)."""
    import re, shutil
    pw = work_dir('tlaps_' + main)
    for f in (main,) + tuple(deps):
        shutil.copy(os.path.join(SPEC, f + '.tla'), pw)
    try:
        pr = subprocess.run(['tlapm', main + '.tla'], cwd=pw, stdout=subprocess.PIPE, stderr=subprocess.STDOUT, timeout=timeout)
        pout = pr.stdout.decode(errors='replace')
    except (subprocess.TimeoutExpired, FileNotFoundError) as ex:
        pout = str(ex)
    m = re.search(r'All (\d+) obligations? proved', pout)
    if not m:
        raise ToolError(f'tlapm did not prove {main}.tla:\n' + pout[-1500:])
    return int(m.group(1))


def tla_str(s):
    return '"' + s.replace('\\', '\\\\').replace('"', '\\"') + '"'


# ------------------------------------------------------------------ findings
def load_findings():
    p = os.path.join(VERIF, 'known_findings.jsonl')
    out = []
    if os.path.exists(p):
        for ln in open(p):
            ln = ln.strip()
            if ln and not ln.startswith('#'):
                out.append(json.loads(ln))
    return out


class Check:
    """One run of one property's check: collects coverage, violations and writes evidence."""

    def __init__(self, pid, tier, level='model_checking'):
        self.pid, self.tier, self.level = pid, tier, level
        self.t0 = time.time()
        self.cov = {'states': 0, 'transitions': 0, 'traces_validated_against_impl': 0, 'samples': [],
                    'evaluations': 0, 'distinct_nontrivial': 0, 'rule': '', 'tlc_runs': [], 'layers': {}}
        self.assumptions = []
        self.violations = []      # (key, what, replay)
        self.known_hit = []
        self.inconclusive = []
        self.known = [f for f in load_findings() if f.get('property') == pid and f.get('status') == 'known']
        os.makedirs(REPLAYS, exist_ok=True)

    # coverage helpers
    def add_tlc(self, name, res, traces=0, events=0):
        self.cov['states'] += res.distinct
        self.cov['transitions'] += res.generated
        self.cov['traces_validated_against_impl'] += traces
        self.cov['tlc_runs'].append({'name': name, 'distinct_states': res.distinct, 'states_generated': res.generated,
                                     'wall_s': round(res.wall, 1), 'events': events,
                                     'coverage': {k: v[0] for k, v in res.coverage.items()}})

    def count(self, evaluations=0, distinct=0):
        self.cov['evaluations'] += evaluations
        self.cov['distinct_nontrivial'] += distinct

    def sample(self, s, limit=12):
        if len(self.cov['samples']) < limit:
            self.cov['samples'].append(s)

    def layer(self, name, **kw):
        self.cov['layers'].setdefault(name, {}).update(kw)

    def note_inconclusive(self, what):
        self.inconclusive.append(what)

    def beyond(self, what):
        """An observation about behaviour that no listed property constrains (the specification covers more than the list):
        recorded in the evidence and printed as a NOTE; never a VIOLATION, never affects the exit code."""
        self.cov.setdefault('beyond_listed_properties', [])
        if len(self.cov['beyond_listed_properties']) < 50:
            self.cov['beyond_listed_properties'].append(what)
        print(f'NOTE: {self.pid} (beyond the listed properties) {what}')

    def violation(self, key, what, replay_obj=None):
        """key: stable identification of the failing input/call site (matched against known_findings)."""
        for f in self.known:
            if f['key'] == key or (f.get('key_prefix') and key.startswith(f['key_prefix'])):
                if key not in [k for k, _ in self.known_hit]:
                    self.known_hit.append((key, f.get('what', what)))
                return
        if len(self.violations) < 60:
            rp = None
            if replay_obj is not None or True:
                rp = os.path.join(REPLAYS, f'{self.pid}_{sha(key)}.json')
                with open(rp, 'w') as fh:
                    json.dump({'property': self.pid, 'key': key, 'what': what, 'case': replay_obj}, fh, indent=1,
                              default=str)
            self.violations.append((key, what, rp))

    def finish(self):
        if os.environ.get('VERIF_PREBUILD') == '1':      # setup run: only the caches matter
            print(f'[{self.pid}] prebuilt ({time.time() - self.t0:.0f}s)')
            return 0
        wall = time.time() - self.t0
        c = self.cov
        c['inconclusive'] = self.inconclusive[:50]
        c['known_findings_hit'] = [k for k, _ in self.known_hit]
        ev = {'property_id': self.pid, 'tier': self.tier, 'seed': SEED, 'level': self.level, 'coverage': c,
              'assumptions': self.assumptions, 'wall_s': round(wall, 2), 'violations': len(self.violations)}
        os.makedirs(EVIDENCE, exist_ok=True)
        tmp = os.path.join(EVIDENCE, f'.{self.pid}.{os.getpid()}.tmp')
        with open(tmp, 'w') as f:
            json.dump(ev, f, indent=1, default=str)
        os.rename(tmp, os.path.join(EVIDENCE, f'{self.pid}.json'))
        for k, w in self.known_hit:
            print(f'KNOWN-FINDING: property={self.pid} {w} [{k}]')
        for k, w, rp in self.violations[:40]:
            print(f'VIOLATION property={self.pid} replay={rp}')
            print(f'  {k}: {w}')
        if len(self.violations) > 40:
            print(f'  ... and {len(self.violations) - 40} more')
        print(f'[{self.pid}/{self.tier}] {"FAIL" if self.violations else "ok"} states={c["states"]} '
              f'transitions={c["transitions"]} traces={c["traces_validated_against_impl"]} '
              f'evaluations={c["evaluations"]} wall={wall:.1f}s')
        sys.stdout.flush()
        return 1 if self.violations else 0


def write_ndjson(path, events):
    with open(path, 'w') as f:
        for e in events:
            f.write(json.dumps(e, ensure_ascii=True) + '\n')
    return path
