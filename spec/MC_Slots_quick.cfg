SPECIFICATION Spec
CONSTANT Vals = {0, 1}
INVARIANT TypeOK
INVARIANT Design
INVARIANT SymmetricReads
INVARIANT FromSymSymmetric
PROPERTY OneSlot
CHECK_DEADLOCK FALSE
