SPECIFICATION Spec
CONSTANTS Regs = {"r1", "r2", "r3"}  NComp = 2  Patterns <- P2  Nums <- NumsSim  Caps <- UnitCaps  Factor = 1000000  MaxAbs = 16000000  Depth = 10
INVARIANT TypeOK
INVARIANT Emit
CONSTRAINT Bound
CHECK_DEADLOCK FALSE
