"""C09 — vectors and tensors implement Euclidean tensor algebra."""
import json
import os

from .. import common as C


def run(tier):
    chk = C.Check('C09', tier)
    thorough = tier == 'thorough'
    mc = C.run_tlc('MC_Tensor', 'MC_Tensor_thorough.cfg' if thorough else 'MC_Tensor.cfg', workers=8, timeout=1500)
    chk.add_tlc('MC_Tensor(identities of the index-notation specification)', mc)
    if not mc.ok:
        raise C.ToolError('MC_Tensor failed\n' + mc.out[-2000:])
    nob = C.run_tlaps('Tensor_proofs', deps=('Tensor',))
    chk.layer('S.proofs', tlaps_obligations_proved=nob,
              note='Tensor_proofs.tla: cross product antisymmetric and orthogonal to both factors, Lagrange identity, cyclic triple product, dot symmetric, '
                   'planar embedding, transpose involutive, trace of a dyadic product, symmetric embedding round trip, det(A^T) = det(A), and the adjugate law A.adj(A) = adj(A).A = det(A) I (the division-free statement of the inverse) — for ALL integer '
                   'components (tlapm; polynomial identities as scalar lemmas by SMT, lifted to the operators of Tensor.tla)')
    exe = C.compile_cxx('shapes', [os.path.join(C.HARNESS, 'shapes.cpp')], flags=['-std=c++17', '-O1', '-fno-fast-math', '-ffp-contract=off', '-w'], libs=['-lquadmath'])
    wd = C.work_dir('c09')
    tp = os.path.join(wd, 'tensor.ndjson')
    with open(tp, 'wb') as f:
        f.write(C.run([exe, 'exact', str(C.SEED), str(4000 if not thorough else 40000)], timeout=900).stdout)
        f.write(C.run([exe, 'real', str(C.SEED), str(3000 if not thorough else 100000)], timeout=1700).stdout)
    evs = [json.loads(x) for x in open(tp)]
    outp = os.path.join(wd, 'tensor_bad.json')
    res = C.run_tlc('Trace_Tensor', 'Trace_Tensor.cfg', env={'TRACE': tp, 'OUT': outp}, workers=1, timeout=1500)
    chk.add_tlc('Trace_Tensor(K3 integer tensors + numeric abstract events)', res, traces=1, events=len(evs))
    summ = [e for e in evs if e['e'] == 'TSummary'][0]
    if res.ok and os.path.exists(outp):
        j = json.load(open(outp))
        for b in j['bad']:
            chk.violation(f"{b['cls']}:{b['op']}:{b['num']}", f"{b['cls']} {b['op']} num={b['num']} a={b['a']} b={b['b']} out={b['out']}", b)
        if j['missing']:
            chk.note_inconclusive(f"{j['missing']} (operation, numeric type) combinations not exercised")
    else:
        k = res.distinct - 1
        chk.violation('tensor_trace_rejected', f'Trace_Tensor rejected event {k}: {evs[k] if k < len(evs) else None}', evs[k] if k < len(evs) else None)
    tr = [e for e in evs if e['e'] == 'TReal']
    chk.layer('A', cases_checked_natively=summ['checked'], events_validated_by_tlc=len([e for e in evs if e['e'] in ('T', 'Inv')]),
              operations=38, note='exhaustive {-1,0,1} grids for all unary operations (19 683 dyads, 729 symmetric dyads) and small binary ones; random '
              'distinct integers in [-9,9] otherwise; inverse presence iff Det = 0 on the same grids, inverse*Det = Adjugate when Det is a power of two')
    chk.layer('B', real_events=len(tr), worst_ulps_of_scale=max(e['ulps'] for e in tr), budget=8,
              inverse=[e for e in evs if e['e'] in ('InvReal', 'InvSingular')][:6])
    chk.count(evaluations=summ['checked'] + sum(e['n'] for e in tr), distinct=len(evs))
    chk.cov['rule'] = ('per operation x numeric type: exhaustive small-integer grids where feasible plus 400 random distinct-integer cases, compared natively with an '
                       'index-notation reference; every disagreement and a seeded sample become events TLC recomputes; reals: random operands over 40 binades against '
                       '__float128, error in ulps of Sum|terms|; inverses: diagonally dominant tensors rescaled by 2^k over the exponent range must have an inverse with '
                       'small residual, tensors with a zero row must have none')
    for e in [e for e in evs if e['e'] == 'T'][:3] + [e for e in evs if e['e'] == 'Inv'][:1] + tr[:1]:
        chk.sample(e)
    chk.assumptions += ['component-wise + - and scalar * / of the raw shapes are covered by the C04 battery (raw shapes are in its type list)',
                        'magnitude is checked against sqrt of the exact sum of squares in __float128']
    return chk.finish()
