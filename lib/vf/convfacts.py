"""Numeric layer for conversions (C01-B, static-vs-run-time clause of C02): build and run the generated
conversion harness against the oracle table emitted by Trace_Units, validate the abstract events with
TLC (spec/Trace_Conv.tla)."""
import concurrent.futures as cf
import json
import os
import sys

from . import common as C, unitsfacts as U

sys.path.insert(0, C.HARNESS)
import gen_convert  # noqa: E402


def run(uout, tier, per=None):
    thorough = tier == 'thorough'
    parts, ks = gen_convert.sources(uout['units'], thorough=thorough, nparts=16 if thorough else 12)
    srcs = [C.gen_file(n, t) for n, t in parts]
    exe = C.compile_cxx('convert_' + ('t' if thorough else 'q'), srcs, libs=['-lquadmath'], timeout=3400)
    wd = uout['workdir']
    mags = U.write_mags(uout, os.path.join(wd, 'mags.txt'))
    per = per or (40 if not thorough else 60)
    mode = '1' if thorough else '0'

    def one(k):
        return C.run([exe, mags, mode, str(C.SEED), str(per), str(k)], timeout=1700).stdout
    with cf.ThreadPoolExecutor(C.NCPU) as ex:
        outs = list(ex.map(one, ks))
    tp = os.path.join(wd, 'conv.ndjson')
    with open(tp, 'wb') as f:
        for o in outs:
            f.write(o)
    evs = [json.loads(x) for x in open(tp)]
    up = os.path.join(wd, 'units.json')
    json.dump({u['type']: u['names'] for u in uout['units']}, open(up, 'w'))
    sp = os.path.join(wd, 'std.json')
    json.dump({e['type']: e['std'] for e in uout['facts'] if e['e'] == 'Enum' and e['kind'] == 'unit'}, open(sp, 'w'))
    outp = os.path.join(wd, 'conv_bad.json')
    res = C.run_tlc('Trace_Conv', 'Trace_Conv.cfg', env={'TRACE': tp, 'UNITS': up, 'STD': sp, 'OUT': outp}, workers=1,
                    timeout=1700, heap='12g')
    ok = res.ok and os.path.exists(outp)
    j = json.load(open(outp)) if ok else None
    return {'events': evs, 'tlc': res, 'accepted': ok, 'result': j, 'values_per_class': per}


def report(chk, pid, cout, classes):
    res = cout['tlc']
    evs = cout['events']
    chk.add_tlc('Trace_Conv(abstract conversion events)', res, traces=1, events=len(evs))
    if not cout['accepted']:
        k = res.distinct - 1
        e = evs[k] if 0 <= k < len(evs) else None
        chk.violation(f'conv_trace_rejected:{(e or {}).get("type")}:{(e or {}).get("from")}:{(e or {}).get("to")}',
                      f'Trace_Conv rejected event {k}: {e}', e)
        return
    j = cout['result']
    for b in j['bad']:
        if b['cls'].startswith('inconclusive'):
            chk.note_inconclusive(f"{b['cls']}:{b['type']}:{b['from']}->{b['to']}:{b['num']}")
            continue
        if b['cls'] in classes:
            chk.violation(f"{b['cls']}:{b['type']}:{b['from']}->{b['to']}",
                          f"{b['cls']} {b['type']} {b['from']}->{b['to']} num={b['num']} entry={b['entry']} ulps={b['ulps']} x={b['witness']}", b)
