"""C13 — Newtonian fluid models: linear viscous stress and its exact inverse."""
from .. import common as C, models as M

CLASSES = {'fluid_stress', 'fluid_strain_rate', 'fluid_not_linear', 'fluid_one_argument_bulk_not_zero', 'model_stub', 'model_inverse_composition', 'fluid_map_real'}


def run(tier):
    chk = C.Check('C13', tier)
    nob = C.run_tlaps('Fluid_proofs', deps=('Fluid',))
    chk.layer('S.proofs', tlaps_obligations_proved=nob, note='Fluid_proofs.tla: in the specification the viscous stress map is linear in the strain rate (all six slots) and '
              'tr(stress) = (2 mu + 3 mub) tr(D), for ALL integer viscosities, coefficients and components (tlapm; polynomial lemmas by SMT lifted through slot lemmas)')
    out = M.run(['exact', 'real'], 2000 if tier == 'quick' else 60000)
    if out['result']:
        out['result']['bad'] = [b for b in out['result']['bad'] if not (b['cls'] in ('model_stub', 'model_inverse_composition') and 'elastic' in b['key'])]
    M.report(chk, 'Trace_Models(fluids: integer viscosities and tensors, stubs, linearity, composition)', out, CLASSES)
    evs = out['events']
    fs = [e for e in evs if e['e'] in ('FluidStress', 'FluidRate')]
    ln = [e for e in evs if e['e'] == 'FluidLinear']
    cp = [e for e in evs if e['e'] == 'Compose' and e['model'] != 'elastic']
    chk.layer('A', stress_and_rate_events=len(fs), linearity_events=len(ln), overload_combinations=(out['result'] or {}).get('fluid'),
              stub_events=len([e for e in evs if e['e'] == 'Stub' and e['model'] != 'elastic']),
              note='integer viscosities and integer tensors make 2 mu D + mu_b tr(D) I exact; inverse exact for mu a power of two and mu_b = 2 mu, snapped otherwise; '
                   'both classes x 3 overloads x direct / abstract interface x 3 model types; one-argument constructor gives mu_b = +0')
    mr = [e for e in evs if e['e'] == 'MapReal' and e['model'] != 'elastic']
    chk.layer('B.maps', events=len(mr), combinations=len({(e['model'], e['fn'], e['num'], e['ov'], e['via']) for e in mr}), worst_ulps=max([e['ulps'] for e in mr] or [0]), budget=8,
              note='2 models x forward / inverse x 3 model numeric types x 3 overload numeric types x direct / abstract interface on real tensors and viscosities with full mantissas, '
                   'against 2 mu D + mu_b tr(D) I and its inverse in __float128, in ulps of the overload type')
    chk.layer('B', composition_events=len(cp), worst_err_eps_kappa=max([e['err_eps_kappa'] for e in cp] or [0]), budget=64)
    chk.count(evaluations=len(fs) + len(ln) + sum(e['n'] for e in mr) + sum(e['n'] for e in cp), distinct=len(fs) + len(ln) + len(cp))
    chk.cov['rule'] = 'exact: 4 viscosities x 3 bulk viscosities x 2 tensors per (class, overload, call path, model type); linearity f(aX+bY) = a f(X) + b f(Y) on random integers; numeric: StrainRate(Stress(D)) ~ D'
    for e in fs[:2] + ln[:1] + cp[:1]:
        chk.sample(e)
    chk.assumptions += ['g++ only (see C12)']
    return chk.finish()
