------------------------------- MODULE UnitSystems -------------------------------
(* The four unit systems: one base unit per base dimension (order T L M I Th N J).  A system is  *)
(* coherent when the consistent unit of a unit type with dimension set d has magnitude           *)
(*    Prod_i Mag(base_i)^d[i]                                                                     *)
(* so that arithmetic on values expressed in that system needs no factors (C07).                 *)
EXTENDS UnitSym

Base == [ MetreKilogramSecondKelvin  |-> <<"s", "m",  "kg",     "A", "K",    "mol", "cd">>,
          MillimetreGramSecondKelvin |-> <<"s", "mm", "g",      "A", "K",    "mol", "cd">>,
          FootPoundSecondRankine     |-> <<"s", "ft", "slug",   "A", "degR", "mol", "cd">>,
          InchPoundSecondRankine     |-> <<"s", "in", "slinch", "A", "degR", "mol", "cd">> ]
Systems        == DOMAIN Base
StandardSystem == "MetreKilogramSecondKelvin"
RECURSIVE CohAcc(_, _, _)
CohAcc(s, d, i) == IF i = 0 THEN One ELSE BagAdd(BagScale(d[i], Atom[Base[s][i]].mag), CohAcc(s, d, i - 1))
CoherentMag(s, d) == CohAcc(s, d, NDim)

(* Spellings of a unit system are lists of unit atoms ("ft lbf s", "mm·g"): the spelling denotes *)
(* system s iff s is the only system all of whose listed atoms are among its characteristic      *)
(* units (base length, mass-or-force, time, temperature).                                        *)
SysAtoms == [ MetreKilogramSecondKelvin  |-> {"m", "kg", "s", "K"},
              MillimetreGramSecondKelvin |-> {"mm", "g", "s", "K"},
              FootPoundSecondRankine     |-> {"ft", "lbf", "s", "degR"},
              InchPoundSecondRankine     |-> {"in", "lbf", "s", "degR"} ]
SystemsDenotedBy(atoms) == {s \in Systems : atoms \subseteq SysAtoms[s]}
=============================================================================
