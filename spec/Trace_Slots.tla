------------------------------- MODULE Trace_Slots -------------------------------
(* K3: executions of random programs over the named setters, mutable references, whole-tuple setters, Zero(),      *)
(* symmetric-to-general assignment, named reads and IsSymmetric on the real raw shapes and on one quantity type    *)
(* per shape (through MutableValue() / Value()), three numeric types, validated step by step against Slots.tla:    *)
(* the specification computes the successor state of every logged action and compares it with the logged state.   *)
(* A mismatch is a verdict (and the model state is resynchronised to the logged one so that the rest of the trace *)
(* is still examined); an ill-formed event rejects the trace.                                                      *)
EXTENDS Slots, Json, IOUtils, TLC
Events == ndJsonDeserialize(IOEnv.TRACE)
VARIABLES l, shape, comps, bad, stat
vars == <<l, shape, comps, bad, stat>>
Init == l = 1 /\ shape = "none" /\ comps = <<>> /\ bad = <<>>
        /\ stat = [executions |-> 0, steps |-> 0, writes |-> 0, reads |-> 0, names |-> {}]
IsEvent(e) == l <= Len(Events) /\ Events[l].e = e /\ l' = l + 1
Verdict(ok, r) == bad' = IF ok \/ Len(bad) >= 200 THEN bad ELSE Append(bad, [cls |-> "slot_semantics", shape |-> shape, carrier |-> r.carrier, num |-> r.num, act |-> r.e,
                                                                              name |-> IF "name" \in DOMAIN r THEN r.name ELSE "", at |-> l])
TReset == LET r == Events[l] IN
  /\ IsEvent("Reset") /\ r.shape \in Shapes /\ Len(r.comps) = NSlots(r.shape)
  /\ shape' = r.shape /\ comps' = r.comps
  /\ bad' = IF r.comps = Zeros(r.shape) \/ Len(bad) >= 200 THEN bad
            ELSE Append(bad, [cls |-> "slot_semantics", shape |-> r.shape, carrier |-> r.carrier, num |-> r.num, act |-> "Zero", name |-> "", at |-> l])
  /\ stat' = [stat EXCEPT !.executions = @ + 1]
Step(r) == shape \in Shapes /\ Len(r.comps) = NSlots(shape) /\ comps' = r.comps /\ UNCHANGED shape
TSetOne == LET r == Events[l] IN
  /\ (IsEvent("SetOne") \/ IsEvent("MutOne")) /\ Step(r) /\ r.name \in Names(shape)
  /\ Verdict(r.comps = AfterSetOne(shape, comps, r.name, r.v), r)
  /\ stat' = [stat EXCEPT !.steps = @ + 1, !.writes = @ + 1, !.names = @ \cup {<<shape, r.e, r.name>>}]
TSetAll == LET r == Events[l] IN
  /\ (IsEvent("SetAllArray") \/ IsEvent("SetAllList") \/ IsEvent("MutAll") \/ IsEvent("AssignArray")) /\ Step(r) /\ Len(r.t) = NSlots(shape)
  /\ Verdict(r.comps = AfterSetAll(shape, comps, r.t), r)
  /\ stat' = [stat EXCEPT !.steps = @ + 1, !.writes = @ + 1]
TZero == LET r == Events[l] IN
  /\ IsEvent("Zero") /\ Step(r)
  /\ Verdict(r.comps = Zeros(shape), r)
  /\ stat' = [stat EXCEPT !.steps = @ + 1, !.writes = @ + 1]
TFromSym == LET r == Events[l] IN
  /\ (IsEvent("AssignSym") \/ IsEvent("ConstructSym")) /\ Step(r) /\ shape = "Dyad" /\ Len(r.t) = 6
  /\ Verdict(r.comps = EmbedSym(r.t), r)
  /\ stat' = [stat EXCEPT !.steps = @ + 1, !.writes = @ + 1]
TReadOne == LET r == Events[l] IN
  /\ IsEvent("ReadOne") /\ Step(r) /\ r.name \in Names(shape)
  /\ Verdict(r.comps = comps /\ r.obs = ReadOne(shape, comps, r.name), r)
  /\ stat' = [stat EXCEPT !.steps = @ + 1, !.reads = @ + 1, !.names = @ \cup {<<shape, r.e, r.name>>}]
TIsSym == LET r == Events[l] IN
  /\ IsEvent("IsSym") /\ Step(r) /\ shape = "Dyad"
  /\ Verdict(r.comps = comps /\ (r.obs = 1) = IsSymmetricDyad(comps), r)
  /\ stat' = [stat EXCEPT !.steps = @ + 1, !.reads = @ + 1]
(* every name of every shape was written through both entry points and read *)
Expected == UNION {{<<sh, a, n>> : a \in {"SetOne", "MutOne", "ReadOne"}, n \in Names(sh)} : sh \in Shapes}
TFinish == /\ l = Len(Events) + 1 /\ l' = l + 1
           /\ JsonSerialize(IOEnv.OUT, [bad |-> bad, stat |-> [executions |-> stat.executions, steps |-> stat.steps, writes |-> stat.writes, reads |-> stat.reads,
                                                                   names_missing |-> Cardinality(Expected \ stat.names)]])
           /\ UNCHANGED <<shape, comps, bad, stat>>
Next == TReset \/ TSetOne \/ TSetAll \/ TZero \/ TFromSym \/ TReadOne \/ TIsSym \/ TFinish
Spec == Init /\ [][Next]_vars
Accepted == TLCGet("stats").diameter - 2 = Len(Events)
=============================================================================
