// C15 (first sentence): PhQ::Print(number) is lossless and canonical.
//   numfmt classes <seed> <n>      boundary neighbourhoods of every power of ten, stratified random bit patterns, three numeric
//                                  types -> one abstract event per (num, decade, sign, notation, significant digits, round trip)
//   numfmt allfloats <from> <to>   every float bit pattern in [from, to) (thorough tier, run in parallel slices)
#include <cmath>
#include <cstdint>
#include <cstdio>
#include <cstdlib>
#include <cstring>
#include <limits>
#include <map>
#include <random>
#include <string>
#include <tuple>
#include <quadmath.h>

#include "PhQ/Base.hpp"
typedef __float128 Qd;
template <class T> struct NN;
template <> struct NN<float> { static constexpr const char* c = "f"; };
template <> struct NN<double> { static constexpr const char* c = "d"; };
template <> struct NN<long double> { static constexpr const char* c = "l"; };

struct Key { int e10, neg, notation, sig, rt, boundary; bool operator<(const Key& o) const { return std::tie(e10, neg, notation, sig, rt, boundary) < std::tie(o.e10, o.neg, o.notation, o.sig, o.rt, o.boundary); } };
struct Val { long n = 0; std::string text; long double x = 0; };
static Qd pow10q(int k) { Qd r = 1; Qd b = 10; int n = k < 0 ? -k : k; while (n) { if (n & 1) r *= b; b *= b; n >>= 1; } return k < 0 ? 1 / r : r; }
// decade of |x|: largest k with 10^k <= |x| (10^k evaluated in __float128; exact for |k| <= 48, far more accurate than T elsewhere)
template <class T> static int decade(T ax) { int k = (int)std::floor(std::log10((long double)ax)); while (pow10q(k + 1) <= (Qd)ax) k++; while (pow10q(k) > (Qd)ax) k--; return k; }
// is x the representable value nearest to 10^k (k < 0)?  there the decimal boundary itself is not representable and either class is acceptable
template <class T> static bool at_inexact_boundary(T ax, int k) { for (int j = k; j <= k + 1; j++) { if (j >= 0 && j <= 22) continue; T b = (T)pow10q(j); if (ax == b) return true; } return false; }
template <class T> static T parse(const std::string& s);
template <> float parse<float>(const std::string& s) { return strtof(s.c_str(), nullptr); }
template <> double parse<double>(const std::string& s) { return strtod(s.c_str(), nullptr); }
template <> long double parse<long double>(const std::string& s) { return strtold(s.c_str(), nullptr); }
template <class T> static bool biteq(T a, T b) { return std::memcmp(&a, &b, std::is_same<T, long double>::value ? 10 : sizeof(T)) == 0; }

template <class T> static void classify(T x, std::map<Key, Val>& acc) {
  std::string s = PhQ::Print(x); Key k; k.neg = std::signbit(x) ? 1 : 0; k.boundary = 0;
  if (x == 0) { k.e10 = -9999; k.notation = s == "0" ? 0 : 3; k.sig = 0; k.rt = 1; }
  else {
    T ax = std::fabs(x); k.e10 = decade(ax); k.boundary = at_inexact_boundary(ax, k.e10) ? 1 : 0;
    size_t epos = s.find_first_of("eE"); k.notation = epos == std::string::npos ? 1 : 2;          // 1 fixed, 2 scientific
    std::string mant = s.substr(0, epos == std::string::npos ? s.size() : epos); int sig = 0; bool started = false; bool wellformed = true;
    for (size_t i = 0; i < mant.size(); i++) { char c = mant[i]; if (c >= '0' && c <= '9') { if (c != '0') started = true; if (started) sig++; } else if (c == '-' && i == 0) {} else if (c == '.') {} else wellformed = false; }
    k.sig = wellformed ? sig : -1; k.rt = biteq(parse<T>(s), x) ? 1 : 0; }
  Val& v = acc[k]; if (!v.n) { v.text = s; v.x = (long double)x; } v.n++;
}
template <class T> static void dump(const std::map<Key, Val>& acc) {
  for (auto& kv : acc) printf("{\"e\":\"PrintClass\",\"num\":\"%s\",\"e10\":%d,\"neg\":%d,\"notation\":\"%s\",\"sig\":%d,\"roundtrip\":%d,\"at_boundary\":%d,\"n\":%ld,\"text\":\"%s\",\"x\":\"%La\"}\n", NN<T>::c, kv.first.e10, kv.first.neg,
                           kv.first.notation == 0 ? "zero" : kv.first.notation == 1 ? "fixed" : kv.first.notation == 2 ? "scientific" : "other", kv.first.sig, kv.first.rt, kv.first.boundary, kv.second.n, kv.second.text.c_str(), kv.second.x);
}
template <class T> static void classes(uint64_t seed, long n) {
  std::mt19937_64 g(seed); std::map<Key, Val> acc;
  classify<T>((T)0, acc); classify<T>(-(T)0, acc);
  const int kmin = std::numeric_limits<T>::min_exponent10, kmax = std::numeric_limits<T>::max_exponent10;
  for (int k = kmin; k <= kmax; k++) { T b = (T)pow10q(k); if (!(b >= std::numeric_limits<T>::min()) || !std::isfinite((long double)b)) continue;
    T lo = b, hi = b; for (int i = 0; i < 6; i++) { lo = std::nextafter(lo, (T)0); hi = std::nextafter(hi, std::numeric_limits<T>::infinity()); }
    for (T x = lo; x <= hi; x = std::nextafter(x, std::numeric_limits<T>::infinity())) { if (x < std::numeric_limits<T>::min() || !std::isfinite((long double)x)) continue; classify<T>(x, acc); classify<T>(-x, acc); }
    // a few values inside the decade
    for (int i = 0; i < 8; i++) { T m = (T)(1.0L + 8.9L * (long double)(g() >> 11) / (long double)(1ULL << 53)); T x = b * m; if (std::isfinite((long double)x) && x >= std::numeric_limits<T>::min()) { classify<T>(x, acc); classify<T>(-x, acc); } } }
  // stratified random bit patterns: every binade, random mantissas
  const int emin = std::numeric_limits<T>::min_exponent, emax = std::numeric_limits<T>::max_exponent; long per = std::max(1L, n / (emax - emin + 1));
  for (int e = emin; e < emax; e++) for (long i = 0; i < per; i++) { T m = (T)(0.5L + 0.5L * (long double)(g() >> 11) / (long double)(1ULL << 53)); if (sizeof(T) > 8) m += (T)std::ldexp((long double)(g() & 2047), -64);
      T x = std::ldexp(m, e); if (x < std::numeric_limits<T>::min() || !std::isfinite((long double)x)) continue; classify<T>((g() & 1) ? x : -x, acc); }
  classify<T>(std::numeric_limits<T>::max(), acc); classify<T>(std::numeric_limits<T>::min(), acc); classify<T>(std::numeric_limits<T>::lowest(), acc);
  dump<T>(acc);
}
int main(int argc, char** argv) {
  std::string mode = argc > 1 ? argv[1] : "classes";
  if (mode == "classes") { uint64_t seed = strtoull(argv[2], 0, 10); long n = atol(argv[3]); classes<float>(seed, n); classes<double>(seed, n); classes<long double>(seed, n); }
  else { uint64_t from = strtoull(argv[2], 0, 10), to = strtoull(argv[3], 0, 10); std::map<Key, Val> acc;
    for (uint64_t b = from; b < to; b++) { uint32_t u = (uint32_t)b; float x; std::memcpy(&x, &u, 4); if (!std::isfinite(x) || (x != 0 && std::fabs(x) < std::numeric_limits<float>::min())) continue; classify<float>(x, acc); }
    dump<float>(acc); }
  return 0;
}
