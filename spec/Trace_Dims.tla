------------------------------- MODULE Trace_Dims -------------------------------
(* K3 binding for PhQ::Dimensions (C06, second sentence): recorded executions of Print(),        *)
(* operator<<, the six comparisons and std::hash on exponent 7-tuples are validated against      *)
(* Dims.tla.  The printed string is parsed by the harness with a full-match grammar into         *)
(* <<letter index, exponent, form>> tokens; TLC recomputes PrintTokens / DCompare.               *)
EXTENDS Dims, Json, IOUtils, TLC

Events == ndJsonDeserialize(IOEnv.TRACE)
VARIABLES l, bad, seen
vars == <<l, bad, seen>>
Init == l = 1 /\ bad = <<>> /\ seen = [prints |-> 0, cmps |-> 0, ties |-> 0, summary |-> 0, serials |-> 0]
IsEvent(e) == l <= Len(Events) /\ Events[l].e = e /\ l' = l + 1
FormName == <<"bare", "caret", "paren">>
B(x) == x = 1

TPrint == LET r == Events[l]
              want == PrintTokens(r.d)
              got == [i \in 1..Len(r.toks) |-> <<r.toks[i][1], r.toks[i][2]>>]
              good == /\ r.ok
                      /\ r.one = PrintsAsOne(r.d)
                      /\ ~r.one => got = want
                      /\ \A i \in 1..Len(r.toks) : FormName[r.toks[i][3] + 1] = TokenForm(r.toks[i][2])
          IN /\ IsEvent("DimPrint") /\ IsDim(r.d)
             /\ bad' = IF good THEN bad ELSE Append(bad, [cls |-> "dims_print", d |-> r.d])
             /\ seen' = [seen EXCEPT !.prints = @ + 1]
TCmp == LET r == Events[l]
            c == DCompare(r.a, r.b)
            good == /\ B(r.lt) = c.lt /\ B(r.gt) = c.gt /\ B(r.le) = c.le /\ B(r.ge) = c.ge
                    /\ B(r.eq) = c.eq /\ B(r.ne) = c.ne
                    /\ c.eq => B(r.heq)                       \* equal tuples hash equally
        IN /\ IsEvent("DimCmp") /\ IsDim(r.a) /\ IsDim(r.b)
           /\ bad' = IF good THEN bad ELSE Append(bad, [cls |-> "dims_order", a |-> r.a, b |-> r.b])
           /\ seen' = [seen EXCEPT !.cmps = @ + 1, !.ties = @ + (IF r.a[1] = r.b[1] THEN 1 ELSE 0)]
(* beyond the listed properties: the JSON / XML / YAML forms of a dimension set list exactly the non-zero exponents, labelled, in the order T L M I Th N J *)
TSerial == LET r == Events[l]
               want == PrintTokens(r.d)
           IN /\ IsEvent("DimSerial") /\ IsDim(r.d) /\ r.form \in {"JSON", "XML", "YAML"}
              /\ bad' = IF r.ok /\ r.pairs = want THEN bad ELSE Append(bad, [cls |-> "extra_dims_serial", d |-> r.d, form |-> r.form])
              /\ seen' = [seen EXCEPT !.serials = @ + 1]
(* Dimensions{} is the dimensionless set; each base-dimension class orders, hashes, prints and streams as its exponent *)
TBase == LET r == Events[l] IN
           /\ IsEvent("DimBase") /\ r.pairs > 0
           /\ bad' = bad \o (IF r.default_is_dimensionless = 1 THEN <<>> ELSE <<[cls |-> "dims_order", a |-> <<"default constructor">>, b |-> <<>>]>>)
                         \o (IF r.bad = 0 THEN <<>> ELSE <<[cls |-> "dims_order", a |-> <<"base dimension class">>, b |-> <<r.bad>>]>>)
           /\ UNCHANGED seen
TSummary == LET r == Events[l] IN
           /\ IsEvent("DimSummary")
           /\ bad' = bad \o (IF \A i \in 1..7 : r.hash_sensitive[i] = 1 THEN <<>>
                             ELSE <<[cls |-> "dims_hash_ignores_component", s |-> r.hash_sensitive]>>)
                         \o (IF r.ref_mismatch_print + r.ref_mismatch_cmp = 0 THEN <<>>
                             ELSE <<[cls |-> "dims_reference_mismatch", n |-> r.ref_mismatch_print + r.ref_mismatch_cmp]>>)
           /\ seen' = [seen EXCEPT !.summary = @ + 1]
TFinish == /\ l = Len(Events) + 1 /\ l' = l + 1
           /\ JsonSerialize(IOEnv.OUT, [bad |-> bad, seen |-> seen])
           /\ UNCHANGED <<bad, seen>>
Next == TPrint \/ TCmp \/ TSerial \/ TBase \/ TSummary \/ TFinish
Spec == Init /\ [][Next]_vars
Accepted == TLCGet("stats").diameter - 2 = Len(Events)
=============================================================================
