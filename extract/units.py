"""Unit atoms (from the hand-written spec/atoms.def), the symbol tokenizer, generation of
spec/Atoms.tla, and the K1 facts trace for the enumeration/unit tables."""
import json
import os
import re
import sys
from fractions import Fraction as Fr

sys.path.insert(0, os.path.dirname(os.path.abspath(__file__)))
import scan  # noqa: E402

HERE = os.path.dirname(os.path.abspath(__file__))
SPEC = os.path.join(os.path.dirname(HERE), 'spec')
DIMS = ['T', 'L', 'M', 'I', 'Th', 'N', 'J']


class A:
    def __init__(s, q=Fr(1), k=0, d=None):
        s.q = Fr(q)
        s.k = k
        s.d = d or [0] * 7

    def mul(s, o, n=1):
        return A(s.q * o.q ** n, s.k + o.k * n, [a + b * n for a, b in zip(s.d, o.d)])


class AtomTable:
    def __init__(self, path=None):
        path = path or os.path.join(SPEC, 'atoms.def')
        self.atoms, self.syn, self.phrase, self.ctx, self.offset = {}, {}, {}, [], {}
        prefixes, prefixable = {}, []

        def num(tok):
            if tok == 'pi':
                return A(1, 1)
            if '/' in tok:
                a, b = tok.split('/')
                return A(Fr(a) / Fr(b))
            return A(Fr(tok))
        for line in open(path, encoding='utf-8'):
            line = line.split('#')[0].strip()
            if not line:
                continue
            kind, rest = line.split(None, 1)
            if kind == 'base':
                n, d = rest.split()
                dd = [0] * 7
                dd[DIMS.index(d)] = 1
                self.atoms[n] = A(1, 0, dd)
            elif kind == 'def':
                n, expr = [x.strip() for x in rest.split('=', 1)]
                r = A()
                for tok in expr.split():
                    m = re.fullmatch(r'([^\^]+)\^(-?\d+)', tok)
                    if m and m.group(1) in self.atoms:
                        r = r.mul(self.atoms[m.group(1)], int(m.group(2)))
                    elif tok in self.atoms:
                        r = r.mul(self.atoms[tok])
                    else:
                        r = r.mul(num(tok))
                self.atoms[n] = r
            elif kind == 'prefix':
                p, v = rest.split()
                prefixes[p] = Fr(v)
            elif kind == 'prefixable':
                prefixable = rest.split()
            elif kind == 'syn':
                for part in rest.split(';'):
                    a, b = part.split()
                    self.syn[a] = b
            elif kind == 'phrase':
                for part in rest.split(';'):
                    a, b = part.split('=')
                    self.phrase[a.strip()] = b.strip()
            elif kind == 'ctx':
                l, r = rest.split(':')
                sp, at = l.split()
                self.ctx.append((sp, at, r.split()))
            elif kind == 'offset':
                parts = rest.split()
                self.offset[parts[0]] = Fr(parts[1])
        for b in prefixable:
            for p, v in prefixes.items():
                pid = ('u' if p == 'μ' else p) + b
                if pid in self.atoms:
                    continue
                self.atoms[pid] = A(v).mul(self.atoms[b])
                if p == 'μ':
                    self.syn['μ' + b] = pid

    def resolve(self, tok, T):
        for sp, at, types in self.ctx:
            if tok == sp and (T in types or types == ['*']):
                return at
        seen = 0
        while tok in self.syn and seen < 5:
            tok = self.syn[tok]
            seen += 1
        return tok

    def tokenize(self, sym, T):
        """symbol -> [[atom, exp], ...] or None when some character is not understood."""
        s = sym.replace('*', '·')
        if s in self.phrase:
            return [[self.phrase[s], 1]]
        pos = 0
        tab = self

        def atom_tok(tok):
            r = tab.resolve(tok, T)
            if r in tab.atoms:
                return [[r, 1]]
            m2 = re.fullmatch(r'(.*?[^\d])(\d)', tok)   # m2, s2 ...
            if m2:
                r2 = tab.resolve(m2.group(1), T)
                if r2 in tab.atoms:
                    return [[r2, int(m2.group(2))]]
            return None

        def prod(stop):
            nonlocal pos
            res = []
            op = 1
            while pos < len(s) and s[pos] not in stop:
                c = s[pos]
                if c == '·':
                    op = 1
                    pos += 1
                    continue
                if c == '/':
                    op = -1
                    pos += 1
                    continue
                if c == ' ':
                    pos += 1
                    continue
                if c == '(':
                    pos += 1
                    v = prod(')')
                    if v is None or pos >= len(s):
                        return None
                    pos += 1
                else:
                    mm = re.match(r"[^·/() ^]+", s[pos:])
                    if not mm:
                        return None
                    tok = mm.group(0)
                    pos += len(tok)
                    v = [] if tok == '1' else atom_tok(tok)
                    if v is None:
                        return None
                if pos < len(s) and s[pos] == '^':
                    mm = re.match(r'\^(?:\((-?\d+)\)|(-?\d+))', s[pos:])
                    if not mm:
                        return None
                    v = [[a, e * int(mm.group(1) or mm.group(2))] for a, e in v]
                    pos += len(mm.group(0))
                res += [[a, e * op] for a, e in v]
            return res
        r = prod('')
        return r if (r is not None and pos == len(s)) else None

    def tokenize_system(self, text):
        """unit-system spelling: list of atoms separated by · - * , space"""
        parts = [p for p in re.split(r'[·\-*, ]+', text) if p]
        out = []
        for p in parts:
            r = self.resolve(p, 'UnitSystem')
            if r not in self.atoms:
                return None
            out.append(r)
        return out

    def tla(self):
        L = ['------------------------------- MODULE Atoms -------------------------------',
             '(* GENERATED by extract/units.py from the hand-written spec/atoms.def: the only mechanical  *)',
             '(* step is the prime factorisation of each decimal definition.  dim = dimension 7-tuple,    *)',
             '(* mag = SI magnitude as a prime-exponent bag (see Mag.tla).                                *)',
             'EXTENDS TLC, Integers', 'Atom ==']
        items = []
        for n, a in self.atoms.items():
            bag = scan.bag_of(a.q, a.k)
            bs = ' @@ '.join(f'"{p}" :> {e}' for p, e in sorted(bag.items())) or '<<>>'
            items.append(f'  "{n}" :> [dim |-> <<{",".join(map(str, a.d))}>>, mag |-> ({bs})]')
        L.append(' @@\n'.join(items))
        offs = []
        for n, q in self.offset.items():
            bag = scan.bag_of(q)
            offs.append(f'"{n}" :> (' + ' @@ '.join(f'"{p}" :> {e}' for p, e in sorted(bag.items())) + ')')
        L.append('AtomOffset == ' + ' @@ '.join(offs))
        L.append('=============================================================================')
        return '\n'.join(L) + '\n'

    def selftest(self):
        """Every bag re-evaluates numerically to its decimal definition."""
        import math
        for n, a in self.atoms.items():
            q, k = scan.bag_value(scan.bag_of(a.q, a.k))
            assert q == a.q and k == a.k, n
        assert self.atoms['ft'].q == Fr('0.3048') and self.atoms['lbf'].q == Fr('0.45359237') * Fr('9.80665')
        assert self.atoms['slug'].q == self.atoms['lbf'].q / Fr('0.3048')
        assert abs(float(self.atoms['deg'].q) * math.pi - math.pi / 180) < 1e-15
        return True


def write_atoms_tla():
    t = AtomTable()
    t.selftest()
    p = os.path.join(SPEC, 'Atoms.tla')
    txt = t.tla()
    if not os.path.exists(p) or open(p, encoding='utf-8').read() != txt:
        with open(p, 'w', encoding='utf-8') as f:
            f.write(txt)
    return p


def integer_factor_units(scanned_units, tab=None, allowed=(1000, 60, 10000, 1000000)):
    """unit type -> (unit name, integer SI magnitude) for the first unit whose symbol denotes one of the allowed integer factors
    (derived from the symbol through the atom table, not from the conversion code)."""
    tab = tab or AtomTable()
    out = {}
    for u in scanned_units:
        src = open(os.path.join(os.environ.get('PHQ_ROOT', '/repo'), 'include', 'PhQ', 'Unit', u['header']), encoding='utf-8').read()
        ab = re.search(r'Abbreviations<\s*Unit::\w+>\s*\{(.*?)\n\s*\};', src, re.S)
        if not ab:
            continue
        best = None
        for name, a in re.findall(r'\{Unit::\w+::(\w+),\s*"([^"]*)"', ab.group(1)):
            toks = tab.tokenize(a, u['type'])
            if toks is None or u['type'] == 'Temperature':
                continue
            m = A()
            for at, e in toks:
                m = m.mul(tab.atoms[at], e)
            if m.k == 0 and m.q.denominator == 1 and int(m.q) in allowed:
                cand = (allowed.index(int(m.q)), name, int(m.q))
                if best is None or cand < best:
                    best = cand
        if best:
            out[u['type']] = (best[1], best[2])
    return out


def norm_model(s):
    return re.sub(r'[ _]', '', s).lower()


def build_facts(dump_lines, scanned_units, other_enums, tab=None):
    """Dump of the compiled tables + scanned enum bodies / conversion bodies -> ordered K1 trace."""
    tab = tab or AtomTable()
    by = {}
    for ln in dump_lines:
        ln = ln.strip()
        if not ln:
            continue
        r = json.loads(ln)
        by.setdefault((r['e'], r.get('type', r.get('name'))), []).append(r)
    ev = []
    enums = [(u['type'], 'unit', u) for u in scanned_units] + [(o['type'], 'other', o) for o in other_enums]
    for T, kind, sc in enums:
        e = by.get(('Enum', T), [{}])[0]
        rec = {'e': 'Enum', 'type': T, 'kind': kind, 'names': sc['names'], 'n_abbr': e.get('n_abbr', -1),
               'n_spell': e.get('n_spell', -1)}
        if kind == 'unit':
            ut = by[('UnitType', T)][0]
            rec.update({'std': ut['std'], 'dims': ut['dims'], 'n_to': ut['n_to'], 'n_from': ut['n_from']})
        ev.append(rec)
        keys = {r['name']: r for r in by.get(('UnitKeys', T), [])}
        disp = {r['name']: r for r in by.get(('Dispatch', T), [])}
        for en in by.get(('Enumerator', T), []):
            abbr = en['abbr']
            rec = {'e': 'Enumerator', 'type': T, 'kind': kind, 'name': en['name'], 'has_abbr': abbr is not None,
                   'abbr': abbr or '', 'abbr_pub': en['abbr_pub'] or '',
                   'streams': en['stream'] is not None, 'stream': en['stream'] or '',
                   'parse_back': en['parse_back'] or '#none'}
            if kind == 'unit':
                toks = tab.tokenize(abbr, T) if abbr is not None else None
                k = keys[en['name']]
                to = scan.aff_json(scan.parse_body(sc['bodies'].get((en['name'], 'ToStandard'), '?')))
                fr = scan.aff_json(scan.parse_body(sc['bodies'].get((en['name'], 'FromStandard'), '?')))

                def aj(a):
                    if a is None:
                        return {'slope': {}, 'has_off': False, 'off_neg': False, 'off_bag': {}}
                    o = a['off']
                    return {'slope': a['slope'], 'has_off': o is not None, 'off_neg': bool(o and o['neg']),
                            'off_bag': o['bag'] if o else {}}
                rec.update({'known': toks is not None, 'toks': toks or [], 'parsed': to is not None and fr is not None,
                            'to': aj(to), 'from': aj(fr),
                            'keys': all(k[x] for x in ('to_f', 'to_d', 'to_l', 'from_f', 'from_d', 'from_l')),
                            'related': k['related'] or '#none',
                            'dispatch_to': bool(disp.get(en['name'], {}).get('to_ok', False)), 'dispatch_from': bool(disp.get(en['name'], {}).get('from_ok', False))})
            elif T == 'UnitSystem':
                toks = tab.tokenize_system(abbr) if abbr is not None else None
                rec.update({'known': toks is not None, 'atoms': toks or []})
            else:
                rec.update({'known': True, 'norm': norm_model(abbr or '')})
            ev.append(rec)
        for x in by.get(('ExtraKey', T), []):
            ev.append({'e': 'ExtraKey', 'type': T, 'table': x['table'], 'val': x['val']})
        for sp in sorted(by.get(('Spelling', T), []), key=lambda r: r['text']):
            rec = {'e': 'Spelling', 'type': T, 'kind': kind, 'text': sp['text'], 'maps_to': sp['maps_to'],
                   'parse': sp['parse'] or '#none'}
            if kind == 'unit':
                toks = tab.tokenize(sp['text'], T)
                rec.update({'known': toks is not None, 'toks': toks or []})
            elif T == 'UnitSystem':
                toks = tab.tokenize_system(sp['text'])
                rec.update({'known': toks is not None, 'atoms': toks or []})
            else:
                rec.update({'known': True, 'norm': norm_model(sp['text'])})
            ev.append(rec)
        if kind == 'unit':
            for c in by.get(('Consistent', T), []):
                ev.append({'e': 'Consistent', 'type': T, 'system': c['system'], 'unit': c['unit'] or '#none',
                           'pub': c['pub'] or '#none'})
            for en in by.get(('Enumerator', T), []):
                ev.append({'e': 'Related', 'type': T, 'unit': en['name'], 'system': keys[en['name']]['related'] or '#none'})
    for (e, n), rs in sorted(by.items()):
        if e == 'QType':
            r = rs[0]
            ev.append({'e': 'QType', 'name': r['name'], 'shape': r['shape'], 'unit_type': r['unit_type'] or '#none',
                       'dims': r['dims'], 'dims_f': r['dims_f'], 'dims_l': r['dims_l']})
    # implemented coherence (C07): judged once every table is known
    for (e, T), rs in sorted(by.items()):
        if e == 'Consistent':
            for c in rs:
                if c['unit']:
                    ev.append({'e': 'ImplCoherent', 'type': T, 'system': c['system'], 'unit': c['unit']})
    ns = []
    for (e, n), rs in sorted(by.items()):
        if e == 'NonSpelling':
            ns += rs
    for r in ns:
        ev.append({'e': 'NonSpelling', 'type': r['type'], 'cls': r['cls'], 'n': r['n'], 'accepted': r['accepted'],
                   'wrong': r['wrong'], 'witness': r['witness'].encode('ascii', 'backslashreplace').decode()})
    return ev, ns


if __name__ == '__main__':
    print(write_atoms_tla())
