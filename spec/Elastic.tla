------------------------------- MODULE Elastic -------------------------------
(* C12: an elastic isotropic solid is a state (mu, lambda) (shear modulus, Lame's first modulus).  *)
(* The seven moduli it reports are rational functions of that state, stated here without division  *)
(* (cross-multiplied) so that they can be evaluated on scaled integers:                             *)
(*     E (lambda + mu) = mu (3 lambda + 2 mu)      3 K = 3 lambda + 2 mu      M = lambda + 2 mu     *)
(*     2 nu (lambda + mu) = lambda                 G = mu                     L = lambda            *)
(* A constructor from the pair (k1 = x, k2 = y) is specified relationally: it must produce a state  *)
(* in which modulus k1 is x and modulus k2 is y and 0 <= nu < 1/2 - the twenty closed forms of the  *)
(* implementation are never transcribed.  Stress = 2 mu eps + lambda tr(eps) I; Strain inverts it;  *)
(* strain-rate arguments are ignored; the strain-rate-only overload returns zero.                   *)
(* All stiffness-like values of an event are scaled by the same S, the Poisson ratio by SN.         *)
EXTENDS Integers, Sequences
Moduli == {"E", "G", "Ks", "Kt", "L", "M", "nu"}
(* does modulus k have value v in state (mu, lam)?  stiffness values scaled by S, nu by SN *)
Has(k, v, mu, lam, SN) ==
  CASE k = "E"  -> v * (lam + mu) = mu * (3 * lam + 2 * mu)
    [] k \in {"Ks", "Kt"} -> 3 * v = 3 * lam + 2 * mu
    [] k = "M"  -> v = lam + 2 * mu
    [] k = "G"  -> v = mu
    [] k = "L"  -> v = lam
    [] k = "nu" -> 2 * v * (lam + mu) = lam * SN
Admissible(mu, lam) == mu > 0 /\ lam >= 0                     \* 0 <= nu < 1/2  <=>  lam >= 0 (with mu > 0)
CtorOK(k1, x, k2, y, mu, lam, SN) == Has(k1, x, mu, lam, SN) /\ Has(k2, y, mu, lam, SN) /\ Admissible(mu, lam)
SupportedPairs == {<<"E", "nu">>, <<"E", "G">>, <<"E", "Ks">>, <<"E", "Kt">>, <<"E", "L">>, <<"E", "M">>, <<"G", "nu">>, <<"G", "Ks">>,
                   <<"G", "Kt">>, <<"G", "L">>, <<"G", "M">>, <<"Ks", "L">>, <<"Kt", "L">>, <<"Ks", "M">>, <<"Kt", "M">>,
                   <<"Ks", "nu">>, <<"Kt", "nu">>, <<"L", "M">>, <<"L", "nu">>, <<"M", "nu">>}
(* symmetric tensors <<xx, xy, xz, yy, yz, zz>> *)
Tr6(e) == e[1] + e[4] + e[6]
Iso(c) == <<c, 0, 0, c, 0, c>>
StressOf(mu, lam, e) == [i \in 1..6 |-> 2 * mu * e[i] + Iso(lam * Tr6(e))[i]]
(* strain s inverts the map: StressOf(mu, lam, s) = sigma *)
IsStrainOf(mu, lam, sigma, s) == StressOf(mu, lam, s) = sigma
Zero6 == <<0, 0, 0, 0, 0, 0>>
=============================================================================
