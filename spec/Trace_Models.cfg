SPECIFICATION Spec
CONSTANTS BudgetSnap = 4  BudgetRebuild = 256  BudgetCompose = 64  BudgetMap = 8
POSTCONDITION Accepted
CHECK_DEADLOCK FALSE
