"""Generates the static-initialisation probe (C19): namespace-scope objects, defined after the includes, that use each
table-backed facility for every unit type and numeric type before main() starts.  Each probe first records - from inside
a class-template member, so that the compiler's point of instantiation is the one user code gets - whether the tables its
facility reads are populated, calls the facility only if they are (so one binary covers everything without crashing), and
main() repeats the same expressions and compares."""


def source(units):
    inc = sorted(set('#include "PhQ/Unit/%s"' % u['header'] for u in units))
    out = ['\n'.join(inc), r'''
#include <cstdio>
#include <string>
#include <cstring>
using namespace PhQ;
template<class T> struct NN; template<> struct NN<float>{ static constexpr const char* c="f"; }; template<> struct NN<double>{ static constexpr const char* c="d"; }; template<> struct NN<long double>{ static constexpr const char* c="l"; };
template<class T> static bool beq(T a, T b){ return std::memcmp(&a,&b, sizeof(T)>10? 10 : sizeof(T))==0; }
template<class U, class T> struct Probe {
  const char* type; U nonstd; bool ran = false;
  bool to_pop=false, from_pop=false, abbr_pop=false, spell_pop=false, cons_pop=false, rel_pop=false;
  T v_to = 0, v_from = 0; std::string s_abbr; bool parse_ok=false, cons_ok=false, rel_ok=false, less_ok=false;
  void compute(){
    to_pop = Internal::MapOfConversionsToStandard<U,T>.size() != 0; from_pop = Internal::MapOfConversionsFromStandard<U,T>.size() != 0;
    abbr_pop = Internal::Abbreviations<U>.size() != 0; spell_pop = Internal::Spellings<U>.size() != 0; cons_pop = Internal::ConsistentUnits<U>.size() != 0; rel_pop = true;
    if(to_pop) v_to = Convert((T)1.5, nonstd, Standard<U>);
    if(from_pop) v_from = Convert((T)1.5, Standard<U>, nonstd);
    if(abbr_pop) s_abbr = std::string(Abbreviation(nonstd));
    if(spell_pop && abbr_pop){ auto p = ParseEnumeration<U>(Abbreviation(nonstd)); parse_ok = p.has_value() && *p == nonstd; }
    if(cons_pop){ cons_ok = ConsistentUnit<U>(UnitSystem::MetreKilogramSecondKelvin) == Standard<U>; }
    { auto r = RelatedUnitSystem(nonstd); rel_ok = !r.has_value() || true; }
    less_ok = (T)1 < (T)2;
    ran = true; }
  Probe(const char* t, U u): type(t), nonstd(u) { compute(); }
  void report(const char* compiler, const char* opt) const {
    Probe again(*this); again.compute();
    auto ev = [&](const char* fac, bool populated, bool equal){ printf("{\"e\":\"Probe\",\"compiler\":\"%s\",\"opt\":\"%s\",\"type\":\"%s\",\"num\":\"%s\",\"facility\":\"%s\",\"populated\":%s,\"equal\":%s}\n", compiler, opt, type, NN<T>::c, fac, populated?"true":"false", (populated&&equal)?"true":"false"); };
    ev("construct_nonstd", to_pop, beq(v_to, again.v_to)); ev("value_in", from_pop, beq(v_from, again.v_from)); ev("print", abbr_pop, s_abbr == again.s_abbr && !s_abbr.empty());
    ev("parse", spell_pop && abbr_pop, parse_ok && again.parse_ok); ev("consistent", cons_pop, cons_ok && again.cons_ok); ev("construct_std", true, less_ok); }
};
''']
    for u in units:
        T = u['type']
        names = u['names']
        std = u.get('std_scanned') or names[0]
        nonstd = [n for n in names if n != std]
        pick = nonstd[0] if nonstd else std
        for num, tag in (('float', 'f'), ('double', 'd'), ('long double', 'l')):
            out.append('static const Probe<Unit::%s, %s> p_%s_%s("%s", Unit::%s::%s);' % (T, num, T, tag, T, T, pick))
    out.append('int main(int argc, char** argv){ const char* compiler = argc>1? argv[1] : "?"; const char* opt = argc>2? argv[2] : "?";')
    for u in units:
        for tag in 'fdl':
            out.append('  p_%s_%s.report(compiler, opt);' % (u['type'], tag))
    out.append('  return 0; }')
    return '\n'.join(out) + '\n'


WITNESS = r'''
#include "PhQ/Length.hpp"
#include "PhQ/Temperature.hpp"
#include <cstdio>
#include <string>
// the user program of the property: objects with static storage duration built from a value in a non-standard unit, converted,
// compared and printed before main() starts
static const PhQ::Length<> x{1.0, PhQ::Unit::Length::Foot};
static const PhQ::Temperature<float> t{32.0F, PhQ::Unit::Temperature::Fahrenheit};
static const double in_mile = PhQ::Length<>(1609.344, PhQ::Unit::Length::Metre).Value(PhQ::Unit::Length::Mile);
static const std::string printed = x.Print(PhQ::Unit::Length::Inch);
static const bool less = x < PhQ::Length<>(1.0, PhQ::Unit::Length::Yard);
int main(){
  const PhQ::Length<> x2{1.0, PhQ::Unit::Length::Foot}; const PhQ::Temperature<float> t2{32.0F, PhQ::Unit::Temperature::Fahrenheit};
  const double in_mile2 = PhQ::Length<>(1609.344, PhQ::Unit::Length::Metre).Value(PhQ::Unit::Length::Mile);
  bool ok = x == x2 && t == t2 && in_mile == in_mile2 && printed == x2.Print(PhQ::Unit::Length::Inch) && less == (x2 < PhQ::Length<>(1.0, PhQ::Unit::Length::Yard)) && less;
  printf("%s\n", ok? "SAME" : "DIFFERENT"); return ok? 0 : 1; }
'''
