// C19 conformance for the constitutive models: a namespace-scope model object of each class and numeric type is printed, serialised,
// compared and evaluated before main(); main() repeats the same expressions.  g++ only (clang++ 14 cannot compile the model headers).
#include <cstdio>
#include <cstring>
#include <sstream>
#include <string>
#include <vector>
#include "PhQ/ConstitutiveModel/CompressibleNewtonianFluid.hpp"
#include "PhQ/ConstitutiveModel/ElasticIsotropicSolid.hpp"
#include "PhQ/ConstitutiveModel/IncompressibleNewtonianFluid.hpp"
using namespace PhQ;
struct Rec { std::vector<std::string> text; std::vector<long double> num; };
template <class T> struct NN; template <> struct NN<float> { static constexpr const char* c = "f"; }; template <> struct NN<double> { static constexpr const char* c = "d"; }; template <> struct NN<long double> { static constexpr const char* c = "l"; };
static std::string jesc(const std::string& s) { std::string o; for (unsigned char c : s) { if (c == '"' || c == '\\') { o += '\\'; o += (char)c; } else if (c < 0x20 || c >= 0x80) o += '?'; else o += (char)c; } return o; }
template <class M, class T> static Rec compute(const M& m) {
  Rec r; const ConstitutiveModel& base = m; std::ostringstream os; os << m;
  r.text = {m.Print(), m.JSON(), m.XML(), m.YAML(), os.str(), base.Print(), base.JSON(), std::string(Abbreviation(base.GetType()))};
  Strain<T> eps(SymmetricDyad<T>((T)1, (T)2, (T)3, (T)4, (T)5, (T)6)); StrainRate<T> rate(SymmetricDyad<T>((T)6, (T)5, (T)4, (T)3, (T)2, (T)1), Unit::Frequency::Kilohertz);
  auto st = base.Stress(eps, rate); for (auto v : st.Value().xx_xy_xz_yy_yz_zz()) r.num.push_back(v);
  r.text.push_back(st.Print(Unit::Pressure::Kilopascal)); r.num.push_back((long double)(m == m)); r.num.push_back((long double)(std::hash<M>()(m) % 1000003));
  return r; }
static bool same(long double a, long double b) { return std::memcmp(&a, &b, 10) == 0 || (a != a && b != b); }
template <class M, class T> static void report(const char* compiler, const char* opt, const char* type, const M& m, const Rec& before) {
  Rec now = compute<M, T>(m); std::string diff; int nd = 0;
  for (size_t i = 0; i < now.text.size(); i++) if (before.text[i] != now.text[i]) { if (nd++ < 3) diff += "text" + std::to_string(i) + ":[" + before.text[i] + "]vs[" + now.text[i] + "] "; }
  for (size_t i = 0; i < now.num.size(); i++) if (!same(before.num[i], now.num[i])) { if (nd++ < 3) diff += "num" + std::to_string(i) + " "; }
  printf("{\"e\":\"PreMain\",\"compiler\":\"%s\",\"opt\":\"%s\",\"type\":\"%s\",\"num\":\"%s\",\"fields\":%zu,\"differ\":%d,\"detail\":\"%s\"}\n", compiler, opt, type, NN<T>::c, now.text.size() + now.num.size(), nd, jesc(diff).c_str()); }
#define MODELS(T, tag) \
  static const ConstitutiveModel::ElasticIsotropicSolid<T> solid_##tag(YoungModulus<T>((T)200, Unit::Pressure::Gigapascal), PoissonRatio<T>((T)0.25L)); static const Rec rs_##tag = compute<ConstitutiveModel::ElasticIsotropicSolid<T>, T>(solid_##tag); \
  static const ConstitutiveModel::CompressibleNewtonianFluid<T> cfluid_##tag(DynamicViscosity<T>((T)1.5L, Unit::DynamicViscosity::PoundSecondPerSquareFoot), BulkDynamicViscosity<T>((T)0.5L, Unit::DynamicViscosity::KilopascalSecond)); static const Rec rc_##tag = compute<ConstitutiveModel::CompressibleNewtonianFluid<T>, T>(cfluid_##tag); \
  static const ConstitutiveModel::IncompressibleNewtonianFluid<T> ifluid_##tag(DynamicViscosity<T>((T)2.5L, Unit::DynamicViscosity::KilopascalSecond)); static const Rec ri_##tag = compute<ConstitutiveModel::IncompressibleNewtonianFluid<T>, T>(ifluid_##tag);
MODELS(float, f) MODELS(double, d) MODELS(long double, l)
#define REPORT(T, tag) \
  report<ConstitutiveModel::ElasticIsotropicSolid<T>, T>(compiler, opt, "ElasticIsotropicSolid", solid_##tag, rs_##tag); \
  report<ConstitutiveModel::CompressibleNewtonianFluid<T>, T>(compiler, opt, "CompressibleNewtonianFluid", cfluid_##tag, rc_##tag); \
  report<ConstitutiveModel::IncompressibleNewtonianFluid<T>, T>(compiler, opt, "IncompressibleNewtonianFluid", ifluid_##tag, ri_##tag);
int main(int argc, char** argv) { const char* compiler = argc > 1 ? argv[1] : "?"; const char* opt = argc > 2 ? argv[2] : "?";
  REPORT(float, f) REPORT(double, d) REPORT(long double, l)
  return 0; }
