------------------------------- MODULE StaticInit -------------------------------
(* C19: quantities must work during static initialisation.                                          *)
(* State: the dynamic-initialisation phase of a program.  A translation unit (TU) includes the      *)
(* library headers and then defines user objects at namespace scope; each user object's             *)
(* initialiser uses one library facility, which reads some of the library's lookup tables.          *)
(* Every table has an initialisation kind, extracted from the working tree:                         *)
(*   "constant"  constant-initialised (constexpr): exists before any dynamic initialisation;        *)
(*   "ordered"   explicit specialisation defined in a header: initialised in definition order       *)
(*               within each TU, i.e. before every user object of that TU (inline variable: once,   *)
(*               by the first TU that reaches it);                                                  *)
(*   "unordered" implicitly instantiated (partial) specialisation of a variable template:           *)
(*               [basic.start.dynamic] leaves its initialisation unordered with respect to          *)
(*               everything else.                                                                   *)
(* Scheduling policies for the unordered tables:                                                     *)
(*   Standard  any time (everything the standard allows);                                           *)
(*   GCC       after all ordered variables and user objects of the TU that instantiates them;       *)
(*   Clang     before the ordered variables of that TU.                                             *)
(* The property quantifies over the orders the two supported compilers produce: NoReadBeforeInit    *)
(* must hold under GCC and under Clang; Standard is reported as information.                        *)
EXTENDS Integers, Sequences, FiniteSets, TLC
CONSTANTS TUs,        \* translation units, e.g. {"tu1", "tu2"}
          Tables,     \* table names
          Kind,       \* function Tables -> {"constant", "ordered", "unordered"}
          Objects,    \* user objects
          TUOf,       \* Objects -> TUs
          Reads,      \* Objects -> SUBSET Tables
          Policy      \* "Standard", "GCC" or "Clang"
VARIABLES inited,     \* tables whose dynamic initialisation has run
          done,       \* user objects whose initialiser has run
          phase,      \* TU -> "headers" (ordered library tables not yet initialised), "objects", "finished"
          fault       \* set of <<object, table>> read before initialisation
vars == <<inited, done, phase, fault>>
Constant == {t \in Tables : Kind[t] = "constant"}
Ordered == {t \in Tables : Kind[t] = "ordered"}
Unordered == {t \in Tables : Kind[t] = "unordered"}
Init == inited = Constant /\ done = {} /\ phase = [u \in TUs |-> "headers"] /\ fault = {}
ObjsOf(u) == {o \in Objects : TUOf[o] = u}
(* the ordered library tables of a TU are defined in the headers, hence before its user objects *)
InitHeaders(u) == /\ phase[u] = "headers"
                  /\ inited' = inited \cup Ordered
                  /\ phase' = [phase EXCEPT ![u] = "objects"]
                  /\ UNCHANGED <<done, fault>>
RunObject(o) == LET u == TUOf[o] IN
                /\ phase[u] = "objects" /\ o \notin done
                /\ done' = done \cup {o}
                /\ fault' = fault \cup {<<o, t>> : t \in Reads[o] \ inited}
                /\ UNCHANGED <<inited, phase>>
FinishTU(u) == /\ phase[u] = "objects" /\ ObjsOf(u) \subseteq done
               /\ phase' = [phase EXCEPT ![u] = "finished"]
               /\ UNCHANGED <<inited, done, fault>>
(* when may the unordered tables instantiated by TU u be initialised? *)
UnorderedAllowed(u) ==
  CASE Policy = "Standard" -> TRUE
    [] Policy = "GCC"      -> phase[u] = "objects" /\ ObjsOf(u) \subseteq done      \* at the end of the TU
    [] Policy = "Clang"    -> phase[u] = "headers"                                  \* before anything ordered in the TU
InitUnordered(u) == /\ ~(Unordered \subseteq inited) /\ UnorderedAllowed(u)
                    /\ inited' = inited \cup Unordered
                    /\ UNCHANGED <<done, phase, fault>>
(* Clang initialises the unordered tables of a TU before its ordered variables: headers may not start earlier *)
ClangGate(u) == Policy = "Clang" => (Unordered \subseteq inited)
Next == \E u \in TUs : (ClangGate(u) /\ InitHeaders(u)) \/ FinishTU(u) \/ InitUnordered(u)
        \/ \E o \in Objects : RunObject(o)
Spec == Init /\ [][Next]_vars
TypeOK == inited \subseteq Tables /\ done \subseteq Objects
NoReadBeforeInit == fault = {}
(* which (object, table) reads can fault under this policy: reported by the check when the invariant fails *)
Completed == \A u \in TUs : phase[u] = "finished"
=============================================================================
