"""C02 — all conversion entry points agree; a quantity read back in its unit is unchanged."""
import concurrent.futures as cf
import json
import os
import sys

from .. import common as C, battery as B

sys.path.insert(0, os.path.join(C.VERIF, 'extract'))
sys.path.insert(0, C.HARNESS)
import scan       # noqa: E402
import gen_forms  # noqa: E402


def run(tier):
    chk = C.Check('C02', tier)
    thorough = tier == 'thorough'
    qs = scan.scan_quantities()
    us = scan.scan_units()
    parts, ks = gen_forms.sources(us, qs, thorough=thorough)
    srcs = [C.gen_file(n, t) for n, t in parts]
    exe = C.compile_cxx('forms_' + ('t' if thorough else 'q'), srcs, flags=['-std=c++17', '-O1', '-fno-fast-math', '-ffp-contract=off', '-w'], timeout=3400)
    reps = 6 if not thorough else 40

    def one(j):
        mode, k = j
        return C.run([exe, mode, str(C.SEED), str(reps), str(k)], timeout=1700).stdout.decode()
    evs = []
    with cf.ThreadPoolExecutor(C.NCPU) as ex:
        for o in ex.map(one, [(m, k) for m in ('free', 'accessors') for k in ks]):
            evs += [json.loads(x) for x in o.splitlines() if x.startswith('{')]
    wd = C.work_dir('c02')
    tp = C.write_ndjson(os.path.join(wd, 'forms.ndjson'), evs)
    up = os.path.join(wd, 'units.json')
    json.dump({u['type']: u['names'] for u in us}, open(up, 'w'))
    qp = os.path.join(wd, 'qunit.json')
    json.dump({n: q['unit'] for n, q in qs.items() if q['unit']}, open(qp, 'w'))
    outp = os.path.join(wd, 'forms_bad.json')
    res = C.run_tlc('Trace_Forms', 'Trace_Forms.cfg', env={'TRACE': tp, 'UNITS': up, 'QUNIT': qp, 'OUT': outp}, workers=1, timeout=1700, heap='12g')
    chk.add_tlc('Trace_Forms(abstract events of every conversion entry point)', res, traces=1, events=len(evs))
    if res.ok and os.path.exists(outp):
        j = json.load(open(outp))
        for b in j['bad']:
            chk.violation(f"{b['cls']}:{b['type']}:{b['form']}:{b['from']}->{b['to']}",
                          f"{b['cls']} {b['type']} {b['form']} {b['from']}->{b['to']} num={b['num']} ulps={b['ulps']}", b)
        if j['forms_missing']:
            chk.note_inconclusive(f"{j['forms_missing']} entry-point forms never exercised")
        if j['quantity_x_num'] != 3 * j['quantity_types']:
            chk.note_inconclusive(f"accessor coverage {j['quantity_x_num']} of {3 * j['quantity_types']} (quantity type x numeric type)")
        chk.layer('A+B', events=len(evs), component_comparisons=sum(e['n'] for e in evs), forms=len({e['form'] for e in evs}),
                  unit_pairs=len({(e['type'], e['from'], e['to']) for e in evs if e['form'] == 'vector'}),
                  quantity_unit_pairs=len({(e['type'], e['to']) for e in evs if e['form'] == 'Value(unit)'}),
                  worst_ulps_vs_scalar=max(e['ulps'] for e in evs if e['form'] not in ('read_back', 'identity')),
                  worst_read_back_ulps=max(e['ulps'] for e in evs if e['form'] in ('read_back', 'identity')))
    else:
        k = res.distinct - 1
        chk.violation('forms_trace_rejected', f'Trace_Forms rejected event {k}: {evs[k] if k < len(evs) else None}', evs[k] if k < len(evs) else None)
    # ---- K2: TLC-generated histories with unit actions (construct in a unit, Create<unit>, Value(unit), StaticValue<unit>, Print(unit))
    bexe, bqs, bks = B.build()
    bs, stats, sims = B.generate_behaviours(150 if not thorough else 2000)
    ub = [x for x in bs if x[1] != 0]
    for (n, caps), r in sorted(sims.items()):
        if caps.startswith('F'):
            chk.add_tlc(f'Store simulate with unit actions ncomp={n} {caps}', r)
    suite = B.write_suite(os.path.join(wd, 'unit_suite.txt'), ub)
    rev = B.run_modes(bexe, bks, ['replay'], suite=suite)
    rres, rresult = B.validate(rev, bqs, wd, 'c02k2')
    B.report(chk, 'Trace_Battery(replay of unit histories)', [e for e in rev if e['behaviours']], rres, rresult, {'replay'})
    chk.cov['traces_validated_against_impl'] += sum(e['behaviours'] for e in rev)
    chk.layer('A.K2', unit_behaviours=len(ub), replays=sum(e['behaviours'] for e in rev), types_with_integer_factor_unit=len({e['type'] for e in rev if e['behaviours']}),
              note='Store.tla unit actions with the SI magnitude of the unit taken from its symbol (1000, 60, 10000, 10^6); values read back must snap to the specification within 4 ulps, stored states must be exact')
    chk.count(evaluations=sum(e['n'] for e in evs) + sum(e['steps'] for e in rev), distinct=len(evs) + len(ub))
    chk.cov['rule'] = ('free functions: for every unit of every unit type, pairs (u,u), (u,next), two random partners (non-standard to non-standard included; '
                       'thorough: all ordered pairs) x 13 run-time forms x 3 numeric types, std::vector lengths 0, 1, 7; compile-time forms for (u,std), (std,u), '
                       '(u,next); accessors: every (dimensional quantity type, unit) x 3 numeric types x 10 forms; inputs: distinct integers per slot and random mantissas')
    for e in evs[:2] + [e for e in evs if e['form'] == 'JSON(unit)'][:1] + [e for e in evs if e['form'] == 'read_back'][:1]:
        chk.sample(e)
    chk.assumptions += ['"converting a unit to itself is the identity" is read as bitwise for the standard unit and within the read-back budget elsewhere: '
                        'the library converts through the standard unit without a same-unit shortcut (DESIGN section 5/C02)',
                        'numbers are parsed back from Print/JSON/XML/YAML(unit) after removing the unit abbreviation; lossless printing itself is C15']
    return chk.finish()
