SPECIFICATION Spec
CONSTANTS N = 12
SNs = {1, 10}
INVARIANTS Unique
CHECK_DEADLOCK FALSE
