------------------------------- MODULE Trace_StaticInit -------------------------------
(* Conformance for C19: probe executions (one event per compiler, optimisation level, unit type,    *)
(* numeric type and facility) are checked against StaticInit's policy models and against the         *)
(* property itself.  Predicted(policy, tables) says whether a user object of the first translation   *)
(* unit finds the tables populated: constant and ordered tables always, unordered tables only under  *)
(* the Clang policy.  A probe that disagrees with the prediction means the policy model does not     *)
(* describe that compiler (recorded as such, never turned into a verdict); the verdict itself is     *)
(* taken from the observation: every facility must find its tables populated before main() and       *)
(* return what the same expression returns inside main().                                            *)
EXTENDS Integers, Sequences, FiniteSets, Json, IOUtils, TLC
Events == ndJsonDeserialize(IOEnv.TRACE)
Cfg == JsonDeserialize(IOEnv.SICFG)        \* [kinds |-> [unit type |-> [table |-> kind]], reads |-> [facility |-> <<tables>>]]
PolicyOf(compiler) == IF compiler = "g++" THEN "GCC" ELSE "Clang"
VARIABLES l, bad, seen
vars == <<l, bad, seen>>
Init == l = 1 /\ bad = <<>> /\ seen = {}
SeqSet(s) == {s[i] : i \in 1..Len(s)}
Predicted(policy, kinds, tables) == \A t \in tables : kinds[t] \in {"constant", "ordered"} \/ (kinds[t] = "unordered" /\ policy = "Clang")
TProbe == LET r == Events[l] IN
  /\ l <= Len(Events) /\ r.e = "Probe" /\ l' = l + 1
  /\ r.type \in DOMAIN Cfg.kinds /\ r.facility \in DOMAIN Cfg.reads /\ r.compiler \in {"g++", "clang++"}
  /\ LET pred == Predicted(PolicyOf(r.compiler), Cfg.kinds[r.type], SeqSet(Cfg.reads[r.facility]))
         key == [compiler |-> r.compiler, opt |-> r.opt, type |-> r.type, num |-> r.num, facility |-> r.facility]
     IN bad' = IF Len(bad) >= 600 THEN bad ELSE
          bad \o (IF r.populated /\ r.equal THEN <<>> ELSE <<[cls |-> "static_init", key |-> key]>>)
              \o (IF pred = r.populated THEN <<>> ELSE <<[cls |-> "policy_model_mismatch", key |-> key]>>)
  /\ seen' = seen \cup {<<r.compiler, r.opt, r.facility>>}
TWitness == LET r == Events[l] IN
  /\ l <= Len(Events) /\ r.e = "Witness" /\ l' = l + 1
  /\ bad' = IF r.outcome = "SAME" THEN bad ELSE Append(bad, [cls |-> "static_init_witness", key |-> [compiler |-> r.compiler, opt |-> r.opt, type |-> "Length", num |-> "d", facility |-> r.outcome]])
  /\ UNCHANGED seen
(* quantity level: every field a namespace-scope object computed before main() equals what main() computes *)
TPreMain == LET r == Events[l] IN
  /\ l <= Len(Events) /\ r.e = "PreMain" /\ l' = l + 1 /\ r.fields > 0
  /\ bad' = IF r.differ = 0 \/ Len(bad) >= 600 THEN bad ELSE
            Append(bad, [cls |-> "static_init_quantity", key |-> [compiler |-> r.compiler, opt |-> r.opt, type |-> r.type, num |-> r.num, facility |-> r.detail]])
  /\ seen' = seen \cup {<<r.compiler, r.opt, "quantity">>}
TFinish == /\ l = Len(Events) + 1 /\ l' = l + 1
           /\ JsonSerialize(IOEnv.OUT, [bad |-> bad, combos |-> Cardinality(seen)])
           /\ UNCHANGED <<bad, seen>>
Next == TProbe \/ TWitness \/ TPreMain \/ TFinish
Spec == Init /\ [][Next]_vars
Accepted == TLCGet("stats").diameter - 2 = Len(Events)
=============================================================================
