"""C08 — enumeration tables are total, unambiguous and parse to the unit meant."""
from .. import common as C, unitsfacts as U


def run(tier):
    chk = C.Check('C08', tier)
    n = 4000 if tier == 'quick' else 60000
    out = U.run(fuzz_n=n)
    U.report(chk, 'C08', out)
    f = out['facts']
    en = [e for e in f if e['e'] == 'Enumerator']
    sp = [e for e in f if e['e'] == 'Spelling']
    ns = [e for e in f if e['e'] == 'NonSpelling']
    tried = sum(e['n'] for e in ns)
    chk.count(evaluations=len(en) + len(sp) + tried, distinct=len(en) + len(sp) + len(ns))
    chk.cov['rule'] = ('every enumerator of the 39 enumeration types (from the enum declarations) and every key of every Spellings '
                       'table is one fact; non-spellings are mutations (case flip, leading/trailing blank, truncation, inserted '
                       'byte, random bytes, embedded NUL) of accepted spellings, abstracted per (type, mutation class)')
    chk.cov['exhaustive'] = True
    # vacuity: every mutation class exercised for every type
    empty = [(e['type'], e['cls']) for e in ns if e['n'] == 0]
    if empty:
        chk.note_inconclusive(f'mutation classes never drawn: {empty[:5]}')
    for e in en[:2] + sp[:3] + ns[:2]:
        chk.sample(e)
    chk.layer('A', enumerations=len([e for e in f if e['e'] == 'Enum']), enumerators=len(en), spellings=len(sp),
              nonspelling_strings=tried, nonspelling_classes=len(ns))
    chk.assumptions += ['spec/atoms.def: meaning of unit atoms and spelled-out synonyms (hand-written)',
                        'enumerator lists come from a regex scan of the enum bodies, cross-checked by table sizes']
    return chk.finish()
