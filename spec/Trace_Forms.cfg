SPECIFICATION Spec
CONSTANTS BudgetForm = 1  BudgetReadBack = 8
POSTCONDITION Accepted
CHECK_DEADLOCK FALSE
