SPECIFICATION Spec
CONSTANTS Regs = {"r1", "r2", "r3"}  NComp = 2  Patterns <- P2  Nums <- NumsSim  Caps <- AffineCaps  Factor = 0  MaxAbs = 4000  Depth = 12
INVARIANT TypeOK
INVARIANT Emit
CONSTRAINT Bound
CHECK_DEADLOCK FALSE
