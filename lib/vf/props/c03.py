"""C03 — every relation between quantities is dimensionally homogeneous."""
import collections

from .. import common as C, relfacts as RF


def run(tier):
    chk = C.Check('C03', tier)
    out = RF.run(n=40 if tier == 'quick' else 400)
    RF.report(chk, 'C03', out)
    rels, fps = out['rels'], out['fps']
    cls = collections.Counter(fps[r['id']]['cls'] for r in rels)
    kinds = collections.Counter(r['kind'] for r in rels)
    eq = [e for e in out['facts'] if e['e'] == 'Equiv']
    chk.layer('A', relations=len(rels), by_kind=dict(kinds), fingerprint_classes=dict(cls),
              uninstantiable=out['excluded'],
              note='dimension sets are the ones derived from the unit symbols by Trace_Units; op rule: sum/difference/equality; '
                   'fingerprinted relations: sum of degree x dims = dims of result')
    chk.layer('B', equivariance_events=len(eq), rescalings_per_relation_and_type=eq[0]['n'] if eq else 0,
              worst_ulps=max([e['ulps'] for e in eq] or [0]), budget_ulps=4)
    chk.count(evaluations=sum(e['n'] for e in eq) + len(rels), distinct=len(rels) + len(eq))
    chk.cov['rule'] = ('one fact per relation of the extracted graph (all operator instances by exhaustive pair detection, all 1-/2-argument '
                       'constructors by exhaustive detection, 3+-argument constructors and quantity-returning members by scan + compile-time '
                       'confirmation); numeric layer: per relation and numeric type, random operands of both signs under independent '
                       'power-of-two rescalings of the seven base units')
    chk.cov['exhaustive'] = True
    for r in rels[:2] + [r for r in rels if r['kind'] == 'member'][:1]:
        chk.sample({'name': r['name'], 'fingerprint': {k: v for k, v in fps[r['id']].items() if k != 'c'}})
    chk.sample(eq[0] if eq else {})
    chk.assumptions += ['the relation graph is what SFINAE detection / the header scan finds; a relation neither finds is not checked',
                        'fingerprints (degrees) are measured in double at two independent base points',
                        'dimensionless-to-dimensionless mistakes are invisible to dimensions (C04/C05/C18 cover them)']
    return chk.finish()
