------------------------------- MODULE Tensor -------------------------------
(* Three-dimensional Cartesian tensor algebra in index notation over integers (C09).             *)
(* Shapes and slot order (the library's declared component order):                               *)
(*   planar vector <<x, y>>, vector <<x, y, z>>,                                                 *)
(*   symmetric dyad <<xx, xy, xz, yy, yz, zz>>, dyad <<xx, xy, xz, yx, yy, yz, zx, zy, zz>>.     *)
(* Hand-written from the textbook formulas; nothing is taken from the implementation.            *)
EXTENDS Integers, Sequences

Idx == 1..3
(* dyad slot of (i, j), row-major *)
DS(i, j) == 3 * (i - 1) + j
D(a, i, j) == a[DS(i, j)]
MkDyad(f(_, _)) == [k \in 1..9 |-> f(((k - 1) \div 3) + 1, ((k - 1) % 3) + 1)]
(* symmetric slot of (i, j) *)
SS(i, j) == LET lo == IF i <= j THEN i ELSE j  hi == IF i <= j THEN j ELSE i IN
            CASE lo = 1 -> hi [] lo = 2 -> hi + 2 [] lo = 3 -> 6
SymEmbed(s) == MkDyad(LAMBDA i, j : s[SS(i, j)])                 \* symmetric dyad -> dyad
SymOfDyad(a) == <<D(a,1,1), D(a,1,2), D(a,1,3), D(a,2,2), D(a,2,3), D(a,3,3)>>   \* upper triangle (caller guarantees symmetry)
IsSymmetric(a) == \A i, j \in Idx : D(a, i, j) = D(a, j, i)
PlanarEmbed(p) == <<p[1], p[2], 0>>                              \* planar vector -> vector
Identity == MkDyad(LAMBDA i, j : IF i = j THEN 1 ELSE 0)
ZeroDyad == [k \in 1..9 |-> 0]

(* ---- vectors ---- *)
Dot(a, b)   == a[1] * b[1] + a[2] * b[2] + a[3] * b[3]
Cross(a, b) == <<a[2] * b[3] - a[3] * b[2], a[3] * b[1] - a[1] * b[3], a[1] * b[2] - a[2] * b[1]>>
Dyadic(a, b) == MkDyad(LAMBDA i, j : a[i] * b[j])
VMagSq(a)   == Dot(a, a)
VAdd(a, b)  == [i \in 1..Len(a) |-> a[i] + b[i]]
VSub(a, b)  == [i \in 1..Len(a) |-> a[i] - b[i]]
VScale(k, a) == [i \in 1..Len(a) |-> k * a[i]]
PDot(a, b)   == a[1] * b[1] + a[2] * b[2]
PCrossZ(a, b) == a[1] * b[2] - a[2] * b[1]                       \* planar cross product = z component
PDyadic(a, b) == Dyadic(PlanarEmbed(a), PlanarEmbed(b))

(* ---- dyads ---- *)
Transpose(a) == MkDyad(LAMBDA i, j : D(a, j, i))
DyadAdd(a, b) == [k \in 1..9 |-> a[k] + b[k]]
Trace(a)     == D(a,1,1) + D(a,2,2) + D(a,3,3)
MatVec(a, v) == [i \in 1..3 |-> D(a,i,1) * v[1] + D(a,i,2) * v[2] + D(a,i,3) * v[3]]
MatMul(a, b) == MkDyad(LAMBDA i, j : D(a,i,1) * D(b,1,j) + D(a,i,2) * D(b,2,j) + D(a,i,3) * D(b,3,j))
(* cyclic successor / predecessor for cofactors *)
Nx(i) == (i % 3) + 1
Pv(i) == ((i + 1) % 3) + 1
Cof(a, i, j) == D(a, Nx(i), Nx(j)) * D(a, Pv(i), Pv(j)) - D(a, Nx(i), Pv(j)) * D(a, Pv(i), Nx(j))
Cofactors(a) == MkDyad(LAMBDA i, j : Cof(a, i, j))
Adjugate(a)  == Transpose(Cofactors(a))
Det(a)       == D(a,1,1) * Cof(a,1,1) + D(a,1,2) * Cof(a,1,2) + D(a,1,3) * Cof(a,1,3)
MagSqDyad(a) == a[1] * a[1] + a[2] * a[2] + a[3] * a[3] + a[4] * a[4] + a[5] * a[5] + a[6] * a[6] + a[7] * a[7] + a[8] * a[8] + a[9] * a[9]
SymMagSq(s)  == MagSqDyad(SymEmbed(s))
(* the inverse exists iff Det # 0 and then  inverse * Det = Adjugate  (stated without division) *)
InverseDefined(a) == Det(a) # 0
IsInverseTimesDet(x, a) == x = Adjugate(a)                    \* x = Det(a) * a^-1, component-wise
(* lemma set checked by MC_Tensor: A*Adj(A) = Det(A) I ; Det(A^T) = Det(A) ; (AB)^T = B^T A^T ; a x b = -(b x a) *)
DScaleT(k, a) == [i \in 1..9 |-> k * a[i]]
=============================================================================
