------------------------------- MODULE MC_StaticInit -------------------------------
(* Instance of StaticInit for the library's table kinds (read from the environment) and one user     *)
(* object per facility in each of two translation units.                                             *)
EXTENDS StaticInit, Json, IOUtils
Cfg == JsonDeserialize(IOEnv.SICFG)           \* [kind |-> [table |-> kind], reads |-> [facility |-> <<tables>>], policy |-> "GCC"]
TablesC == DOMAIN Cfg.kind
KindC == [t \in TablesC |-> Cfg.kind[t]]
Facilities == DOMAIN Cfg.reads
ObjectsC == {f \o "@tu1" : f \in Facilities} \cup {f \o "@tu2" : f \in Facilities}
FacOf(o) == CHOOSE f \in Facilities : o = f \o "@tu1" \/ o = f \o "@tu2"
TUOfC == [o \in ObjectsC |-> IF \E f \in Facilities : o = f \o "@tu1" THEN "tu1" ELSE "tu2"]
ReadsC == [o \in ObjectsC |-> {Cfg.reads[FacOf(o)][i] : i \in 1..Len(Cfg.reads[FacOf(o)])}]
PolicyC == Cfg.policy
=============================================================================
