"""C11 — the angle between two vectors is always a real number in [0, pi]."""
from .. import common as C, dirsrun as D


def run(tier):
    chk = C.Check('C11', tier)
    out = D.run('angles', 3000 if tier == 'quick' else 100000)
    D.report(chk, 'Trace_Dirs(angle kernels x geometry classes)', out)
    evs = out['events']
    cl = [e for e in evs if e['e'] == 'AngleClass']
    if out['result'] and out['result']['kernels_missing_a_class']:
        chk.note_inconclusive(f"{out['result']['kernels_missing_a_class']} kernels not exercised in every geometry class")
    chk.layer('A+B', kernels=out['nkernels'], class_events=len(cl), pairs=sum(e['n'] for e in cl),
              geometry_classes=['parallel', 'antiparallel', 'nearly_parallel', 'nearly_antiparallel', 'orthogonal', 'generic'],
              worst_error_over_tolerance=max([e['err_over_tol_x1000'] for e in cl] or [0]) / 1000.0,
              note='tolerance 16*sqrt(eps): the conditioning of arccos near +-1; axis-aligned pairs must give exactly 0, pi/2, pi (to 8 ulps)')
    chk.count(evaluations=sum(e['n'] for e in cl), distinct=len(evs))
    chk.cov['rule'] = ('one event per (angle kernel or quantity-level angle constructor/member, numeric type, geometry class); pairs b = +-k a exactly, the same with one '
                       'component perturbed by 2^-j for j up to the mantissa width, orthogonal by construction, and generic; symmetry and power-of-two length independence per pair')
    for e in cl[:3] + [e for e in evs if e['e'] == 'AngleAxes'][:1]:
        chk.sample(e)
    chk.assumptions += ['reference angle atan2(|a x b|, a . b) evaluated in __float128 on the operands as passed']
    return chk.finish()
