------------------------------- MODULE MC_Slots -------------------------------
(* The slot store as a state machine over a small value set, all four shapes: TLC explores every sequence of   *)
(* named writes, whole-tuple writes and zeroing and checks the design properties in every state.                *)
EXTENDS Slots, TLC
CONSTANT Vals
VARIABLES shape, comps, last
vars == <<shape, comps, last>>
Tuples(sh) == {[i \in 1..NSlots(sh) |-> IF i = k THEN v ELSE w] : k \in 1..NSlots(sh), v \in Vals, w \in Vals}
Init == shape \in Shapes /\ comps = Zeros(shape) /\ last = <<"Zero">>
SetOne == \E n \in Names(shape), v \in Vals : comps' = AfterSetOne(shape, comps, n, v) /\ last' = <<"SetOne", n, v>> /\ UNCHANGED shape
SetAll == \E t \in Tuples(shape) : comps' = AfterSetAll(shape, comps, t) /\ last' = <<"SetAll">> /\ UNCHANGED shape
Zero   == comps' = Zeros(shape) /\ last' = <<"Zero">> /\ UNCHANGED shape
FromSym == shape = "Dyad" /\ \E t \in Tuples("SymmetricDyad") : comps' = EmbedSym(t) /\ last' = <<"FromSym">> /\ UNCHANGED shape
Next == SetOne \/ SetAll \/ Zero \/ FromSym
Spec == Init /\ [][Next]_vars
TypeOK == Len(comps) = NSlots(shape)
Design == /\ OntoOK(shape)
          /\ \A n1, n2 \in Names(shape) : AliasOK(shape, n1, n2)
          /\ \A n1, n2 \in Names(shape), v \in Vals : WriteReadOK(shape, comps, n1, v, n2)
(* a symmetric dyad read through its nine names is a symmetric matrix, whatever was written *)
SymmetricReads == shape = "SymmetricDyad" => \A n1, n2 \in Names(shape) : (Row(n1) = Col(n2) /\ Col(n1) = Row(n2)) => ReadOne(shape, comps, n1) = ReadOne(shape, comps, n2)
(* a dyad assigned from a symmetric dyad is symmetric until an off-diagonal name is written *)
FromSymSymmetric == (shape = "Dyad" /\ last = <<"FromSym">>) => IsSymmetricDyad(comps)
(* a named write changes exactly one slot *)
OneSlot == [][last'[1] = "SetOne" => Cardinality({i \in 1..NSlots(shape) : comps'[i] # comps[i]}) <= 1]_vars
View == <<shape, comps>>
=============================================================================
