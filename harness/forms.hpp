// C02: every conversion entry point agrees with the plain scalar Convert, slot by slot.
#pragma once
#include <array>
#include <cmath>
#include <cstdint>
#include <cstdio>
#include <cstring>
#include <limits>
#include <random>
#include <sstream>
#include <string>
#include <vector>
#include "battery.hpp"

namespace frm {
using bat::NumName; using bat::getc; using bat::put;
template <class E> struct NameTab { E v; const char* n; };
template <class T> inline double ulps(T a, T b) {
  if (a == b) return 0; if (!std::isfinite((long double)a) || !std::isfinite((long double)b)) return 1e18;
  T s = std::max(std::fabs(a), std::fabs(b)); int e; std::frexp(s, &e); return (double)(std::fabs(a - b) / std::ldexp((T)1, e - std::numeric_limits<T>::digits)); }
struct Acc { long n = 0; double worst = 0; long arg_modified = 0; long ident_bad = 0; long double wit = 0;
  template <class T> void cmp(T got, T want) { double u = ulps(got, want); n++; if (u > worst) { worst = u; wit = (long double)want; } }
  // distance measured in ulps of the largest intermediate (a value and its SI image): read-back through an affine unit
  template <class T> void cmp_scaled(T got, T want, T scale) { n++; if (got == want) return; T s = std::max(std::max(std::fabs(got), std::fabs(want)), std::fabs(scale)); int e; std::frexp(s, &e);
    double u = (double)(std::fabs(got - want) / std::ldexp((T)1, e - std::numeric_limits<T>::digits)); if (!std::isfinite(u)) u = 1e18; if (u > worst) { worst = u; wit = (long double)want; } } };
inline void emit(const char* type, const char* form, const char* from, const char* to, const char* num, const Acc& a) {
  printf("{\"e\":\"Form\",\"type\":\"%s\",\"form\":\"%s\",\"from\":\"%s\",\"to\":\"%s\",\"num\":\"%s\",\"n\":%ld,\"ulps\":%ld,\"arg_modified\":%ld,\"ident_bad\":%ld,\"witness\":\"%La\"}\n",
         type, form, from, to, num, a.n, a.worst > 1e9 ? 1000000000L : (long)std::ceil(a.worst), a.arg_modified, a.ident_bad, a.wit); }

// distinct components per slot, both signs; non-trivial mantissas
template <class T> inline void fill(std::mt19937_64& g, T* c, int n, int variant) {
  for (int i = 0; i < n; i++) { if (variant == 2) c[i] = (i & 1) ? -(T)0 : (T)0; else if (variant == 0) c[i] = (T)((i + 1) * ((i & 1) ? -1 : 1)); else { T m = (T)(1.0L + (long double)(g() >> 11) / (long double)(1ULL << 53)); c[i] = std::ldexp(m, (int)(g() % 16) - 8) * ((g() & 1) ? 1 : -1); } } }

// ---- free functions, run-time unit pair ----
template <class U, class T> void runtime_forms(const char* Ty, const char* an, const char* bn, U a, U b, uint64_t seed, int reps) {
  std::mt19937_64 g(seed); const char* nm = NumName<T>::c;
  Acc sc_ip, arr, arr_ip, vec, vec_ip, pv, pv_ip, v3, v3_ip, sd, sd_ip, dy, dy_ip, v0;
  for (int r = 0; r < reps; r++) {
    T c[9]; fill(g, c, 9, r == 0 ? 0 : (r == 1 ? 2 : 1)); T want[9]; for (int i = 0; i < 9; i++) want[i] = PhQ::Convert(c[i], a, b);
    { T x = c[0]; PhQ::ConvertInPlace(x, a, b); sc_ip.cmp(x, want[0]); }
    { std::array<T, 5> in{c[0], c[1], c[2], c[3], c[4]}, keep = in; auto out = PhQ::Convert(in, a, b); for (int i = 0; i < 5; i++) arr.cmp(out[i], want[i]); for (int i = 0; i < 5; i++) if (!bat::biteq(in[i], keep[i])) arr.arg_modified++;
      PhQ::ConvertInPlace(in, a, b); for (int i = 0; i < 5; i++) arr_ip.cmp(in[i], want[i]); }
    for (int len : {0, 1, 7}) { std::vector<T> in(c, c + len), keep = in; auto out = PhQ::Convert(in, a, b); if ((int)out.size() != len) vec.ident_bad++; for (int i = 0; i < len && i < (int)out.size(); i++) vec.cmp(out[i], want[i]); if (in != keep) vec.arg_modified++;
      PhQ::ConvertInPlace(in, a, b); for (int i = 0; i < len; i++) vec_ip.cmp(in[i], want[i]); if (len == 0) v0.n++; }
    { PhQ::PlanarVector<T> in(c[0], c[1]), keep = in; auto out = PhQ::Convert(in, a, b); T o[2]; put(out, o); for (int i = 0; i < 2; i++) pv.cmp(o[i], want[i]); if (!(in == keep)) pv.arg_modified++; PhQ::ConvertInPlace(in, a, b); put(in, o); for (int i = 0; i < 2; i++) pv_ip.cmp(o[i], want[i]); }
    { PhQ::Vector<T> in(c[0], c[1], c[2]), keep = in; auto out = PhQ::Convert(in, a, b); T o[3]; put(out, o); for (int i = 0; i < 3; i++) v3.cmp(o[i], want[i]); if (!(in == keep)) v3.arg_modified++; PhQ::ConvertInPlace(in, a, b); put(in, o); for (int i = 0; i < 3; i++) v3_ip.cmp(o[i], want[i]); }
    { PhQ::SymmetricDyad<T> in(c[0], c[1], c[2], c[3], c[4], c[5]), keep = in; auto out = PhQ::Convert(in, a, b); T o[6]; put(out, o); for (int i = 0; i < 6; i++) sd.cmp(o[i], want[i]); if (!(in == keep)) sd.arg_modified++; PhQ::ConvertInPlace(in, a, b); put(in, o); for (int i = 0; i < 6; i++) sd_ip.cmp(o[i], want[i]); }
    { PhQ::Dyad<T> in(c[0], c[1], c[2], c[3], c[4], c[5], c[6], c[7], c[8]), keep = in; auto out = PhQ::Convert(in, a, b); T o[9]; put(out, o); for (int i = 0; i < 9; i++) dy.cmp(o[i], want[i]); if (!(in == keep)) dy.arg_modified++; PhQ::ConvertInPlace(in, a, b); put(in, o); for (int i = 0; i < 9; i++) dy_ip.cmp(o[i], want[i]); }
  }
  emit(Ty, "scalar_inplace", an, bn, nm, sc_ip); emit(Ty, "array", an, bn, nm, arr); emit(Ty, "array_inplace", an, bn, nm, arr_ip);
  emit(Ty, "vector", an, bn, nm, vec); emit(Ty, "vector_inplace", an, bn, nm, vec_ip);
  emit(Ty, "PlanarVector", an, bn, nm, pv); emit(Ty, "PlanarVector_inplace", an, bn, nm, pv_ip); emit(Ty, "Vector", an, bn, nm, v3); emit(Ty, "Vector_inplace", an, bn, nm, v3_ip);
  emit(Ty, "SymmetricDyad", an, bn, nm, sd); emit(Ty, "SymmetricDyad_inplace", an, bn, nm, sd_ip); emit(Ty, "Dyad", an, bn, nm, dy); emit(Ty, "Dyad_inplace", an, bn, nm, dy_ip);
}
template <class U, class T, size_t N> void runtime_all(const char* Ty, const NameTab<U> (&tab)[N], uint64_t seed, int reps, int mode) {
  std::mt19937_64 g(seed * 7 + N);
  for (size_t i = 0; i < N; i++) {
    // every unit: to itself, to its successor, to a random unit (non-standard -> non-standard pairs included), thorough: all pairs
    std::vector<size_t> js; if (mode) { for (size_t j = 0; j < N; j++) js.push_back(j); } else { js = {i, (i + 1) % N, (size_t)(g() % N), (size_t)(g() % N)}; }
    for (size_t j : js) runtime_forms<U, T>(Ty, tab[i].n, tab[j].n, tab[i].v, tab[j].v, seed + i * 977 + j, reps);
  }
}
// identity: a unit converted to itself changes nothing where no arithmetic happens, and at most rounding elsewhere
template <class U, class T, size_t N> void identity_all(const char* Ty, const NameTab<U> (&tab)[N], uint64_t seed, int reps) {
  std::mt19937_64 g(seed);
  for (size_t i = 0; i < N; i++) { Acc a; for (int r = 0; r < reps; r++) { T c[1]; fill(g, c, 1, 1); T y = PhQ::Convert(c[0], tab[i].v, tab[i].v); a.cmp_scaled(y, c[0], PhQ::Convert(c[0], tab[i].v, PhQ::Standard<U>)); if (tab[i].v == PhQ::Standard<U> && !bat::biteq(y, c[0])) a.ident_bad++; }
    emit(Ty, "identity", tab[i].n, tab[i].n, NumName<T>::c, a); }
}
// ---- free functions, compile-time unit pair ----
template <class U, U a, U b, class T> void static_forms(const char* Ty, const char* an, const char* bn, uint64_t seed, int reps) {
  std::mt19937_64 g(seed); const char* nm = NumName<T>::c; Acc arr, pv, v3, sd, dy, sc;
  for (int r = 0; r < reps; r++) { T c[9]; fill(g, c, 9, r == 0 ? 0 : 1); T want[9]; for (int i = 0; i < 9; i++) want[i] = PhQ::Convert(c[i], a, b);
    sc.cmp(PhQ::ConvertStatically<U, a, b>(c[0]), want[0]);
    { std::array<T, 5> in{c[0], c[1], c[2], c[3], c[4]}, keep = in; auto out = PhQ::ConvertStatically<U, a, b>(in); for (int i = 0; i < 5; i++) arr.cmp(out[i], want[i]); for (int i = 0; i < 5; i++) if (!bat::biteq(in[i], keep[i])) arr.arg_modified++; }
    { PhQ::PlanarVector<T> in(c[0], c[1]); auto out = PhQ::ConvertStatically<U, a, b>(in); T o[2]; put(out, o); for (int i = 0; i < 2; i++) pv.cmp(o[i], want[i]); }
    { PhQ::Vector<T> in(c[0], c[1], c[2]); auto out = PhQ::ConvertStatically<U, a, b>(in); T o[3]; put(out, o); for (int i = 0; i < 3; i++) v3.cmp(o[i], want[i]); }
    { PhQ::SymmetricDyad<T> in(c[0], c[1], c[2], c[3], c[4], c[5]); auto out = PhQ::ConvertStatically<U, a, b>(in); T o[6]; put(out, o); for (int i = 0; i < 6; i++) sd.cmp(o[i], want[i]); }
    { PhQ::Dyad<T> in(c[0], c[1], c[2], c[3], c[4], c[5], c[6], c[7], c[8]); auto out = PhQ::ConvertStatically<U, a, b>(in); T o[9]; put(out, o); for (int i = 0; i < 9; i++) dy.cmp(o[i], want[i]); } }
  emit(Ty, "static_scalar", an, bn, nm, sc); emit(Ty, "static_array", an, bn, nm, arr); emit(Ty, "static_PlanarVector", an, bn, nm, pv); emit(Ty, "static_Vector", an, bn, nm, v3);
  emit(Ty, "static_SymmetricDyad", an, bn, nm, sd); emit(Ty, "static_Dyad", an, bn, nm, dy);
}

// ---- quantity accessors in a unit ----
inline int numbers_in(std::string s, const std::string& abbr, long double* out, int cap) {
  size_t p; while (!abbr.empty() && (p = s.rfind(abbr)) != std::string::npos) { s.erase(p, abbr.size()); break; }
  // drop field labels (xx, value, unit ...): keep characters that can belong to numbers only when preceded by a delimiter
  int n = 0; size_t i = 0;
  while (i < s.size()) { unsigned char ch = s[i]; bool start = (isdigit(ch) || ((ch == '-' || ch == '+' || ch == '.') && i + 1 < s.size() && (isdigit((unsigned char)s[i + 1]) || s[i + 1] == '.')));
    bool delim = i == 0 || !(isalnum((unsigned char)s[i - 1]) || s[i - 1] == '_' || s[i - 1] == '^');
    if (start && delim) { char* end; long double v = strtold(s.c_str() + i, &end); if (end != s.c_str() + i) { if (n < cap) out[n] = v; n++; i = end - s.c_str(); continue; } }
    i++; }
  return n; }
template <class Q, class = void> struct has_print_unit : std::false_type {};
template <class Q> struct has_print_unit<Q, std::void_t<decltype(std::declval<const Q&>().Print(Q::Unit()))>> : std::true_type {};
template <class Q, class U, U u, class T> Q create_components(const T* c, std::integral_constant<int, 2>) { return Q::template Create<u>(c[0], c[1]); }
template <class Q, class U, U u, class T> Q create_components(const T* c, std::integral_constant<int, 3>) { return Q::template Create<u>(c[0], c[1], c[2]); }
template <class Q, class U, U u, class T> Q create_components(const T* c, std::integral_constant<int, 6>) { return Q::template Create<u>(c[0], c[1], c[2], c[3], c[4], c[5]); }
template <class Q, class U, U u, class T> Q create_components(const T* c, std::integral_constant<int, 9>) { return Q::template Create<u>(c[0], c[1], c[2], c[3], c[4], c[5], c[6], c[7], c[8]); }
// Ad as in battery; U unit enum; u unit value (compile time)
template <class Ad, class U, U u> void accessors(const char* Qn, const char* un, uint64_t seed, int reps) {
  using Q = typename Ad::Q; using T = typename Ad::T; constexpr int N = Ad::N; std::mt19937_64 g(seed);
  Acc ctor, val, sval, create, create_arr, create_cmp, prt, jsn, xml, yml, rb; const char* nm = NumName<T>::c;
  std::string abbr(PhQ::Abbreviation(u));
  for (int r = 0; r < reps; r++) {
    T c[9]; fill(g, c, N, r == 0 ? 0 : (r == 1 ? 2 : 1));
    if (r == 1) { for (int i = 0; i < N; i++) c[i] = PhQ::Convert((T)0, PhQ::Standard<U>, u); }   // the value whose SI image is exactly zero
    // construct from a value expressed in unit u: stored value = scalar conversion of each component, once
    using V = std::decay_t<decltype(std::declval<const Q&>().Value())>;
    V raw = bat::rawmake(c, (V*)nullptr); Q q(raw, u); T st[9]; getc(q, st);
    for (int i = 0; i < N; i++) ctor.cmp(st[i], PhQ::Convert(c[i], u, PhQ::Standard<U>));
    { T keep[9] = {0}; getc(q, keep); auto v = q.Value(u); T o[9]; put(v, o); for (int i = 0; i < N; i++) { val.cmp(o[i], PhQ::Convert(st[i], PhQ::Standard<U>, u)); rb.cmp_scaled(o[i], c[i], st[i]); } T after[9] = {0}; getc(q, after); for (int i = 0; i < N; i++) if (!bat::biteq(keep[i], after[i])) val.arg_modified++; }
    { auto v = q.template StaticValue<u>(); T o[9]; put(v, o); for (int i = 0; i < N; i++) sval.cmp(o[i], PhQ::Convert(st[i], PhQ::Standard<U>, u)); }
    { Q k = Q::template Create<u>(raw); T o[9]; getc(k, o); for (int i = 0; i < N; i++) create.cmp(o[i], PhQ::Convert(c[i], u, PhQ::Standard<U>)); }
    if constexpr (N > 1) { std::array<T, N> a; for (int i = 0; i < N; i++) a[i] = c[i]; Q k = Q::template Create<u>(a); T o[9]; getc(k, o); for (int i = 0; i < N; i++) create_arr.cmp(o[i], PhQ::Convert(c[i], u, PhQ::Standard<U>));
      // the overload taking the components one by one
      Q kc = create_components<Q, U, u, T>(c, std::integral_constant<int, N>{}); getc(kc, o); for (int i = 0; i < N; i++) create_cmp.cmp(o[i], PhQ::Convert(c[i], u, PhQ::Standard<U>)); }
    { auto v = q.Value(u); T o[9]; put(v, o); long double got[12];
      auto chk = [&](Acc& a, const std::string& s) { int k = numbers_in(s, abbr, got, 12); if (k != N) { a.ident_bad++; return; } for (int i = 0; i < N; i++) a.cmp((T)got[i], o[i]); if (s.find(abbr) == std::string::npos) a.ident_bad++; };
      chk(prt, q.Print(u)); chk(jsn, q.JSON(u)); chk(xml, q.XML(u)); chk(yml, q.YAML(u)); }
  }
  emit(Qn, "construct_in_unit", un, "std", nm, ctor); emit(Qn, "Value(unit)", "std", un, nm, val); emit(Qn, "StaticValue<unit>", "std", un, nm, sval);
  emit(Qn, "Create<unit>", un, "std", nm, create); if (N > 1) { emit(Qn, "Create<unit>(array)", un, "std", nm, create_arr); emit(Qn, "Create<unit>(components)", un, "std", nm, create_cmp); }
  emit(Qn, "Print(unit)", "std", un, nm, prt); emit(Qn, "JSON(unit)", "std", un, nm, jsn); emit(Qn, "XML(unit)", "std", un, nm, xml); emit(Qn, "YAML(unit)", "std", un, nm, yml);
  emit(Qn, "read_back", un, un, nm, rb);
}
}  // namespace frm
