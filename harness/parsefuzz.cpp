// C20: number and enumeration parsing are total on arbitrary byte strings (value or nothing, never an exception, never UB).
//   parsefuzz <seed> <n>   -> one abstract event per (function, input class)
#include <cerrno>
#include <cmath>
#include <cstdint>
#include <cstdio>
#include <cstdlib>
#include <cstring>
#include <random>
#include <string>
#include <vector>
#include "PhQ/Base.hpp"
#include "PhQ/UnitSystem.hpp"
#include "PhQ/Unit/Length.hpp"
#include "PhQ/Unit/Temperature.hpp"
#include "PhQ/Unit/Energy.hpp"
#include "PhQ/ConstitutiveModel.hpp"
using namespace PhQ;
static const int NCLS = 12;
static const char* CLS[NCLS] = {"random_bytes", "digits", "decimal", "scientific", "huge_exponent", "inf_nan", "hex_float", "whitespace_prefix", "embedded_nul", "non_ascii", "blank", "padded"};
static std::string gen(std::mt19937_64& g, int cls) {
  std::string s; auto digits = [&](int n) { for (int i = 0; i < n; i++) s += (char)('0' + g() % 10); };
  switch (cls) {
    case 0: { int n = (int)(g() % 24); for (int i = 0; i < n; i++) s += (char)(g() % 256); } break;
    case 1: if (g() & 1) s += '-'; digits(1 + (int)(g() % 400)); break;
    case 2: if (g() & 1) s += (g() & 1) ? '-' : '+'; digits((int)(g() % 20)); s += '.'; digits((int)(g() % 40)); break;
    case 3: if (g() & 1) s += '-'; digits(1 + (int)(g() % 5)); if (g() & 1) { s += '.'; digits((int)(g() % 10)); } s += (g() & 1) ? 'e' : 'E'; if (g() & 1) s += (g() & 1) ? '-' : '+'; digits((int)(g() % 4)); break;
    case 4: s = "1"; if (g() & 1) s += ".5"; s += 'e'; if (g() & 1) s += '-'; digits(3 + (int)(g() % 12)); break;
    case 5: { const char* v[] = {"inf", "-inf", "INF", "nan", "NaN", "-nan", "nan(0x7)", "infinity", "Infinity", "in", "na", "infinit"}; s = v[g() % 12]; } break;
    case 6: s = (g() & 1) ? "0x" : "-0X"; for (int i = 0, n = (int)(g() % 18); i < n; i++) s += "0123456789abcdefABCDEF"[g() % 22]; if (g() & 1) { s += '.'; s += "0123456789abcdef"[g() % 16]; } if (g() & 1) { s += 'p'; if (g() & 1) s += '-'; digits(1 + (int)(g() % 6)); } break;
    case 7: { const char* w[] = {" ", "\t", "\n", "  \r\n", "\v\f"}; s = w[g() % 5]; s += "12.5"; if (g() & 1) s += " m"; } break;
    case 8: s = "1"; s += '\0'; s += "2"; if (g() & 1) { s = std::string(1, '\0') + s; } break;
    case 10: { int n = (int)(g() % 6); for (int i = 0; i < n; i++) s += " \t\n\r\v\f"[g() % 6]; } break;     // empty or whitespace only
    case 11: { int a = (int)(g() % 3), b = (int)(g() % 3); for (int i = 0; i < a; i++) s += " \t\n\r"[g() % 4]; const char* m[] = {"m", "kg", "K", "J", "x", "1.5", "-2e3", ""}; s += m[g() % 8]; for (int i = 0; i < b; i++) s += " \t\n\r"[g() % 4]; } break;   // a token padded with whitespace on either side
    default: { const char* u[] = {"\xCE\xBCs", "1\xC2\xB7" "5", "\xE2\x88\x92" "3", "\xEF\xBC\x91\xEF\xBC\x92", "3,14", "\xFF\xFE" "1"}; s = u[g() % 6]; } break; }
  return s;
}
template <class T> static T oracle_parse(const char* s, char** end);
template <> float oracle_parse<float>(const char* s, char** end) { return strtof(s, end); }
template <> double oracle_parse<double>(const char* s, char** end) { return strtod(s, end); }
template <> long double oracle_parse<long double>(const char* s, char** end) { return strtold(s, end); }
template <class T> static void numbers(const char* fn, uint64_t seed, int n) {
  std::mt19937_64 g(seed);
  for (int cls = 0; cls < NCLS; cls++) { long val = 0, none = 0, threw = 0, differs = 0; std::string wit;
    for (int i = 0; i < n; i++) { std::string s = gen(g, cls); bool has = false; T v = 0;
      try { auto r = ParseNumber<T>(s); has = r.has_value(); if (has) v = *r; } catch (...) { if (!threw) wit = s; threw++; continue; }
      // oracle: the longest valid prefix converts and the result is in range  (what std::stof/stod/stold define)
      errno = 0; char* end = nullptr; T w = oracle_parse<T>(s.c_str(), &end); bool want = end != s.c_str() && errno != ERANGE;
      if (has != want || (has && std::memcmp(&v, &w, sizeof(T) > 10 ? 10 : sizeof(T)) != 0 && !(v != v && w != w))) { if (!differs && !threw) wit = s; differs++; }
      if (has) val++; else none++; }
    std::string w; char b[8]; for (unsigned char c : wit) { snprintf(b, 8, "%02x", c); w += b; }
    printf("{\"e\":\"ParseClass\",\"fn\":\"%s\",\"cls\":\"%s\",\"n\":%d,\"value\":%ld,\"nothing\":%ld,\"threw\":%ld,\"differs\":%ld,\"witness_hex\":\"%s\"}\n", fn, CLS[cls], n, val, none, threw, differs, w.c_str()); }
}
template <class E> static void enums(const char* fn, uint64_t seed, int n) {
  std::mt19937_64 g(seed); std::vector<std::string> keys; for (auto& kv : Internal::Spellings<E>) keys.emplace_back(kv.first);
  for (int cls = 0; cls < NCLS; cls++) { long val = 0, none = 0, threw = 0, differs = 0; std::string wit;
    for (int i = 0; i < n; i++) { std::string s = (i % 5 == 0 && !keys.empty()) ? keys[g() % keys.size()] + gen(g, cls).substr(0, g() % 3) : gen(g, cls); bool has = false;
      try { auto r = ParseEnumeration<E>(std::string_view(s)); has = r.has_value(); } catch (...) { if (!threw) wit = s; threw++; continue; }
      bool want = false; for (auto& k : keys) if (k == s) want = true; if (has != want) { if (!differs && !threw) wit = s; differs++; } if (has) val++; else none++; }
    std::string w; char b[8]; for (unsigned char c : wit) { snprintf(b, 8, "%02x", c); w += b; }
    printf("{\"e\":\"ParseClass\",\"fn\":\"%s\",\"cls\":\"%s\",\"n\":%d,\"value\":%ld,\"nothing\":%ld,\"threw\":%ld,\"differs\":%ld,\"witness_hex\":\"%s\"}\n", fn, CLS[cls], n, val, none, threw, differs, w.c_str()); }
}
int main(int argc, char** argv) { uint64_t seed = argc > 1 ? strtoull(argv[1], 0, 10) : 1; int n = argc > 2 ? atoi(argv[2]) : 1000;
  numbers<float>("ParseNumber<float>", seed, n); numbers<double>("ParseNumber<double>", seed + 1, n); numbers<long double>("ParseNumber<long double>", seed + 2, n);
  enums<Unit::Length>("ParseEnumeration<Unit::Length>", seed + 3, n); enums<Unit::Temperature>("ParseEnumeration<Unit::Temperature>", seed + 4, n); enums<Unit::Energy>("ParseEnumeration<Unit::Energy>", seed + 5, n);
  enums<UnitSystem>("ParseEnumeration<UnitSystem>", seed + 6, n); enums<ConstitutiveModel::Type>("ParseEnumeration<ConstitutiveModel::Type>", seed + 7, n);
  return 0; }
