#!/usr/bin/env python3
"""tools/apicov.py — one-off analysis (not a check): which functions of include/PhQ do the conformance harnesses never execute?
Builds every harness with gcov instrumentation in a scratch directory outside /repo and /verif, runs them on small workloads, and
lists the functions of the library (by header and line) with their execution counts.  With --universe <dir of .gcov.json from the
repository's own test suite> it also lists functions the suite instantiates that no harness instantiates at all."""
import concurrent.futures as cf, glob, gzip, json, os, subprocess, sys, shutil
V = os.path.dirname(os.path.dirname(os.path.abspath(__file__)))
sys.path.insert(0, os.path.join(V, 'lib')); sys.path.insert(0, os.path.join(V, 'extract')); sys.path.insert(0, os.path.join(V, 'harness'))
from vf import common as C, relgraph as G, unitsfacts as U, battery as B
import scan, units as unitsmod, gen_battery, gen_relations, gen_forms, gen_convert, gen_dirs, gen_dump, gen_premain, gen_staticinit
OUT = '/var/tmp/phq_apicov'
os.makedirs(OUT + '/obj', exist_ok=True)

def build(name, sources, libs=()):
    objs = []
    def one(i_s):
        i, s = i_s
        o = f'{OUT}/obj/{name}_{i}.o'
        if not os.path.exists(o):
            r = subprocess.run(['g++', '-std=c++17', '-O0', '--coverage', '-fno-fast-math', '-w', '-I' + C.INC, '-I' + C.HARNESS, '-c', s, '-o', o], stdout=subprocess.PIPE, stderr=subprocess.STDOUT)
            if r.returncode:
                print(name, 'compile failed', r.stdout.decode()[-800:]); return None
        return o
    with cf.ThreadPoolExecutor(14) as ex:
        objs = list(ex.map(one, enumerate(sources)))
    if None in objs: return None
    exe = f'{OUT}/{name}'
    r = subprocess.run(['g++', '--coverage'] + objs + ['-o', exe] + list(libs), stdout=subprocess.PIPE, stderr=subprocess.STDOUT)
    if r.returncode: print(name, 'link failed', r.stdout.decode()[-800:]); return None
    print('built', name, len(sources), 'TUs', flush=True)
    return exe

def runs(exe, argvs, stdin=None):
    for a in argvs:
        subprocess.run([exe] + [str(x) for x in a], stdout=subprocess.DEVNULL, stderr=subprocess.DEVNULL, timeout=3000, input=stdin)

uout = U.run()
us, others, qs = uout['units'], uout['others'], uout['quantities']
g = G.graph()
H = C.HARNESS
jobs = []
for nm, libs, argvs in (('shapes', ['-lquadmath'], [['exact', 1, 200], ['real', 1, 100]]), ('models', ['-lquadmath'], [['exact', 1, 1], ['cmp', 1, 100], ['real', 1, 50]]),
                        ('numfmt', ['-lquadmath'], [['classes', 1, 2000]]), ('parsefuzz', [], [[1, 500]]), ('slots', [], [[1, 60]]), ('dims_box', [], [[1, 1, 200]])):
    e = build(nm, [os.path.join(H, nm + '.cpp')], libs)
    if e: runs(e, argvs)
e = build('dump_tables', [C.gen_file(n, t) for n, t in gen_dump.sources(us, others, qs)])
if e: runs(e, [[], ['fuzz', 1, 100]])
dparts, _, _ = gen_dirs.sources(g['qs'], g['members'])
e = build('dirs', [C.gen_file(n, t) for n, t in dparts], ['-lquadmath'])
if e: runs(e, [['dirs', 1, 100], ['angles', 1, 100]])
fparts, fks = gen_forms.sources(us, qs)
e = build('forms', [C.gen_file(n, t) for n, t in fparts])
if e: runs(e, [['free', 1, 2], ['accessors', 1, 2]])
mags = U.write_mags(uout, OUT + '/mags.txt')
cparts, cks = gen_convert.sources(uout['units'], thorough=False, nparts=12)
e = build('convert', [C.gen_file(n, t) for n, t in cparts], ['-lquadmath'])
if e: runs(e, [[mags, 0, 1, 6]])
bparts, bks = gen_battery.sources(scan.scan_quantities(), unitpick=unitsmod.integer_factor_units(scan.scan_units()))
e = build('battery', [C.gen_file(n, t) for n, t in bparts])
if e:
    bs, stats, sims = B.generate_behaviours(20)
    suite = B.write_suite(OUT + '/suite.txt', bs)
    for k in bks:
        runs(e, [[m, suite if m == 'replay' else '-', 1, 50, k] for m in ('replay', 'layout', 'cast', 'compare', 'arith', 'mathfn', 'mutators', 'composite')])
excl = []
blk = os.path.join(C.cache_dir('facts'), 'uninstantiable.json')
if os.path.exists(blk): excl = json.load(open(blk))
rparts, rels = gen_relations.sources(g, exclude=set(excl))
e = build('relations', [C.gen_file(n, t) for n, t in rparts], ['-lquadmath'])
if e:
    q = '\n'.join(f"{r['id']} d " + ' '.join(['0x1.8p+1'] * (9 * len(r['args']))) for r in rels) + '\n'
    runs(e, [['eval']], stdin=q.encode())
    runs(e, [['list']])
print('harness runs done', flush=True)
# collect
fn = {}
def gc(gcda):
    r = subprocess.run(['gcov', '-j', '-t', '-m', gcda], stdout=subprocess.PIPE, stderr=subprocess.DEVNULL, cwd=os.path.dirname(gcda))
    out = []
    try:
        j = json.loads(r.stdout.decode(errors='replace'))
    except Exception:
        return out
    for f in j.get('files', []):
        if '/include/PhQ/' not in f['file']: continue
        rel = f['file'].split('/include/PhQ/')[1]
        for x in f.get('functions', []):
            out.append((rel, x['start_line'], x.get('demangled_name', x['name']), x['execution_count']))
    return out
gcdas = glob.glob(OUT + '/obj/*.gcda')
with cf.ThreadPoolExecutor(14) as ex:
    for lst in ex.map(gc, gcdas):
        for rel, line, name, cnt in lst:
            k = (rel, line)
            v = fn.setdefault(k, {'names': set(), 'count': 0})
            v['names'].add(name.split('(')[0][-80:]); v['count'] += cnt
json.dump([{'file': k[0], 'line': k[1], 'names': sorted(v['names'])[:3], 'count': v['count']} for k, v in sorted(fn.items())], open(OUT + '/harness_functions.json', 'w'), indent=0)
print('functions instantiated by harnesses:', len(fn), 'never executed:', len([1 for v in fn.values() if v['count'] == 0]))
