"""Generates the numeric-coherence probe (C07 numeric layer): for every consistent unit of every (unit type, unit system) entry - the base
units among them - the value of ONE such unit in the standard unit and of one standard unit in it, as the real conversion routines compute
them in float, double and long double (exact hexadecimal output).  The coherence arithmetic on these measured values is done exactly
(rationals) outside, and judged by Trace_Units (TCoherenceNum)."""


def sources(pairs, headers):
    inc = '\n'.join(f'#include "PhQ/Unit/{h}"' for h in sorted(set(headers)))
    out = ['#include <cstdio>', inc, 'using namespace PhQ;',
           'template<class T> struct NT; template<> struct NT<float>{ static constexpr const char* c="f"; }; template<> struct NT<double>{ static constexpr const char* c="d"; }; template<> struct NT<long double>{ static constexpr const char* c="l"; };',
           'template<class U, class T> static void one(const char* ty, const char* un, U u){ T to = Convert((T)1, u, Standard<U>); T from = Convert((T)1, Standard<U>, u); T tos = to, froms = from;',
           '  printf("{\\"e\\":\\"UnitVal\\",\\"type\\":\\"%s\\",\\"unit\\":\\"%s\\",\\"num\\":\\"%s\\",\\"to\\":\\"%La\\",\\"from\\":\\"%La\\"}\\n", ty, un, NT<T>::c, (long double)tos, (long double)froms); }',
           'int main(){']
    for T, u in sorted(set(pairs)):
        for num in ('float', 'double', 'long double'):
            out.append(f'  one<Unit::{T}, {num}>("{T}", "{u}", Unit::{T}::{u});')
    out.append('  return 0; }')
    return [('coherence.cpp', '\n'.join(out) + '\n')]
