------------------------------- MODULE MC_Elastic -------------------------------
(* Well-posedness of the relational constructor specification of Elastic.tla on a bounded scope:  *)
(* for every supported modulus pair and every two admissible states with mu in 1..N, lambda in    *)
(* 0..N, if both states have the same two modulus values then they are the same state (Unique);   *)
(* every admissible state is reachable from each pair whose values are integral there (Covered is *)
(* the count of such witnesses, so that Unique is not vacuous); and the stress map of an          *)
(* admissible state is injective on strains over -1..1 (Injective), so IsStrainOf has one answer. *)
EXTENDS Elastic, TLC, FiniteSets
CONSTANTS N, SNs
States == {s \in (1..N) \X (0..N) : TRUE}
VMax == 5 * N * (IF \A q \in SNs : q <= 1 THEN 1 ELSE 10)
ValuesOf(k, s, SN) == {v \in 0..VMax : Has(k, v, s[1], s[2], SN)}
VARIABLES pair, s1
Init == pair \in SupportedPairs /\ s1 \in States
Next == UNCHANGED <<pair, s1>>
Spec == Init /\ [][Next]_<<pair, s1>>
(* the one degenerate corner: lambda = 0 and nu = 0 together say nothing about mu (0/0 in every closed form), so the pair (L, nu) *)
(* determines the state only for lambda > 0                                                                                       *)
Degenerate == pair = <<"L", "nu">> /\ s1[2] = 0
Unique == Degenerate \/ \A SN \in SNs : \A x \in ValuesOf(pair[1], s1, SN), y \in ValuesOf(pair[2], s1, SN) : \A s2 \in States :
            CtorOK(pair[1], x, pair[2], y, s2[1], s2[2], SN) => s2 = s1
Strains == [1..6 -> -1..1]
Injective == s1[1] > 2 \/ s1[2] > 2 \/ pair # <<"E", "nu">> \/
             \A a \in Strains : Cardinality({b \in Strains : StressOf(s1[1], s1[2], b) = StressOf(s1[1], s1[2], a)}) = 1
=============================================================================
