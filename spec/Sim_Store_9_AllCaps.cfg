SPECIFICATION Spec
CONSTANTS Regs = {"r1", "r2", "r3"}  NComp = 9  Patterns <- P9  Nums <- NumsSim  Caps <- AllCaps  Factor = 0  MaxAbs = 4000  Depth = 12
INVARIANT TypeOK
INVARIANT Emit
CONSTRAINT Bound
CHECK_DEADLOCK FALSE
