------------------------------- MODULE Theory -------------------------------
(* C18, derived forms.  The named definitions are not independent: gamma = cp/cv and R = cp - cv  *)
(* share two variables, the three sound-speed formulas share a and gamma, the two Reynolds and    *)
(* the two Prandtl formulas are tied by nu = mu/rho and alpha = k/(rho cp).  The library also      *)
(* implements the relations obtained by ELIMINATING a variable between two definitions             *)
(* (R = (gamma - 1) cv, cp = gamma R/(gamma - 1), ...), which are not instances of any single      *)
(* definition and are not monomials or linear forms, so neither DefinitionOK nor SolvedOK reaches  *)
(* them.  This module states what they must satisfy without writing any of them down:              *)
(*                                                                                                 *)
(*   a STATE of the fluid at a point assigns a positive rational to every scalar quantity type     *)
(*   the definitions mention; it is a MODEL when every definition (and the auxiliary definitions   *)
(*   "specific = extensive / mass", "kinematic pressure = pressure / density") holds in it         *)
(*   exactly; every relation of the library among pairwise distinct types of the theory must then  *)
(*   map the state's values of its argument types to the state's value of its result type.         *)
(*                                                                                                 *)
(* ModelsOK is evaluated by TLC on the states below (Holds is derived from the Definition table,   *)
(* so the states are checked against the same formulas DefinitionOK uses); the states are chosen   *)
(* generic: no two variables of one dimension coincide, gamma # 2, Ma # 1, Pr # 1, and one state   *)
(* has non-integer rationals.  Rationals are <<numerator, denominator>>.                           *)
EXTENDS Definitions

AuxDefinition ==
  [ specific_isobaric   |-> Mono("SpecificIsobaricHeatCapacity", <<"IsobaricHeatCapacity", "Mass">>, <<2, -2>>, Unity),
    specific_isochoric  |-> Mono("SpecificIsochoricHeatCapacity", <<"IsochoricHeatCapacity", "Mass">>, <<2, -2>>, Unity),
    specific_gas        |-> Mono("SpecificGasConstant", <<"GasConstant", "Mass">>, <<2, -2>>, Unity),
    static_kinematic    |-> Mono("StaticKinematicPressure", <<"StaticPressure", "MassDensity">>, <<2, -2>>, Unity),
    dynamic_kinematic   |-> Mono("DynamicKinematicPressure", <<"DynamicPressure", "MassDensity">>, <<2, -2>>, Unity),
    total_kinematic     |-> Mono("TotalKinematicPressure", <<"TotalPressure", "MassDensity">>, <<2, -2>>, Unity) ]
TheoryDefs == {"dynamic_pressure", "dynamic_kinematic_pressure", "total_pressure", "total_kinematic_pressure", "sound_speed_bulk",
               "sound_speed_pressure", "sound_speed_temperature", "mach_number", "reynolds_dynamic", "reynolds_kinematic",
               "prandtl_diffusivities", "prandtl_conductivity", "heat_capacity_ratio", "specific_heat_ratio", "gas_constant",
               "specific_gas_constant", "thermal_diffusivity", "kinematic_viscosity"}
TheoryFormulas == {Definition[k] : k \in TheoryDefs} \cup {AuxDefinition[k] : k \in DOMAIN AuxDefinition}
TypesOf(d) == {d.ret} \cup {d.args[i] : i \in 1..Len(d.args)}
TheoryVars == UNION {TypesOf(d) : d \in TheoryFormulas}

Whole(n) == <<n, 1>>
Frac(n, d) == <<n, d>>
TheoryStates == <<
  [ SpecificIsochoricHeatCapacity |-> Whole(4), HeatCapacityRatio |-> Whole(3), SpecificIsobaricHeatCapacity |-> Whole(12), SpecificGasConstant |-> Whole(8),
    Temperature |-> Whole(6), SoundSpeed |-> Whole(12), MassDensity |-> Whole(2), StaticPressure |-> Whole(96), IsentropicBulkModulus |-> Whole(288),
    Speed |-> Whole(6), MachNumber |-> Frac(1, 2), DynamicPressure |-> Whole(36), DynamicKinematicPressure |-> Whole(18), TotalPressure |-> Whole(132),
    StaticKinematicPressure |-> Whole(48), TotalKinematicPressure |-> Whole(66), DynamicViscosity |-> Whole(8), KinematicViscosity |-> Whole(4),
    Length |-> Whole(10), ReynoldsNumber |-> Whole(15), ScalarThermalConductivity |-> Whole(32), ThermalDiffusivity |-> Frac(4, 3), PrandtlNumber |-> Whole(3),
    Mass |-> Whole(5), IsobaricHeatCapacity |-> Whole(60), IsochoricHeatCapacity |-> Whole(20), GasConstant |-> Whole(40) ],
  [ SpecificIsochoricHeatCapacity |-> Whole(8), HeatCapacityRatio |-> Frac(3, 2), SpecificIsobaricHeatCapacity |-> Whole(12), SpecificGasConstant |-> Whole(4),
    Temperature |-> Whole(6), SoundSpeed |-> Whole(6), MassDensity |-> Whole(3), StaticPressure |-> Whole(72), IsentropicBulkModulus |-> Whole(108),
    Speed |-> Whole(4), MachNumber |-> Frac(2, 3), DynamicPressure |-> Whole(24), DynamicKinematicPressure |-> Whole(8), TotalPressure |-> Whole(96),
    StaticKinematicPressure |-> Whole(24), TotalKinematicPressure |-> Whole(32), DynamicViscosity |-> Whole(6), KinematicViscosity |-> Whole(2),
    Length |-> Whole(5), ReynoldsNumber |-> Whole(10), ScalarThermalConductivity |-> Whole(9), ThermalDiffusivity |-> Frac(1, 4), PrandtlNumber |-> Whole(8),
    Mass |-> Whole(7), IsobaricHeatCapacity |-> Whole(84), IsochoricHeatCapacity |-> Whole(56), GasConstant |-> Whole(28) ],
  [ SpecificIsochoricHeatCapacity |-> Frac(5, 2), HeatCapacityRatio |-> Frac(7, 5), SpecificIsobaricHeatCapacity |-> Frac(7, 2), SpecificGasConstant |-> Whole(1),
    Temperature |-> Whole(35), SoundSpeed |-> Whole(7), MassDensity |-> Frac(3, 2), StaticPressure |-> Frac(105, 2), IsentropicBulkModulus |-> Frac(147, 2),
    Speed |-> Whole(21), MachNumber |-> Whole(3), DynamicPressure |-> Frac(1323, 4), DynamicKinematicPressure |-> Frac(441, 2), TotalPressure |-> Frac(1533, 4),
    StaticKinematicPressure |-> Whole(35), TotalKinematicPressure |-> Frac(511, 2), DynamicViscosity |-> Frac(9, 4), KinematicViscosity |-> Frac(3, 2),
    Length |-> Whole(2), ReynoldsNumber |-> Whole(28), ScalarThermalConductivity |-> Frac(7, 8), ThermalDiffusivity |-> Frac(1, 6), PrandtlNumber |-> Whole(9),
    Mass |-> Whole(4), IsobaricHeatCapacity |-> Whole(14), IsochoricHeatCapacity |-> Whole(10), GasConstant |-> Whole(4) ],
  \* a heavy polyatomic gas: the heat capacity ratio is close to one (and dyadic, so that the state is exactly representable in binary)
  [ SpecificIsochoricHeatCapacity |-> Whole(64), HeatCapacityRatio |-> Frac(33, 32), SpecificIsobaricHeatCapacity |-> Whole(66), SpecificGasConstant |-> Whole(2),
    Temperature |-> Whole(528), SoundSpeed |-> Whole(33), MassDensity |-> Whole(2), StaticPressure |-> Whole(2112), IsentropicBulkModulus |-> Whole(2178),
    Speed |-> Whole(11), MachNumber |-> Frac(1, 3), DynamicPressure |-> Whole(121), DynamicKinematicPressure |-> Frac(121, 2), TotalPressure |-> Whole(2233),
    StaticKinematicPressure |-> Whole(1056), TotalKinematicPressure |-> Frac(2233, 2), DynamicViscosity |-> Whole(6), KinematicViscosity |-> Whole(3),
    Length |-> Whole(9), ReynoldsNumber |-> Whole(33), ScalarThermalConductivity |-> Whole(11), ThermalDiffusivity |-> Frac(1, 12), PrandtlNumber |-> Whole(36),
    Mass |-> Whole(3), IsobaricHeatCapacity |-> Whole(198), IsochoricHeatCapacity |-> Whole(192), GasConstant |-> Whole(6) ] >>

(* ---- exact rational arithmetic on small numbers (TLC integers are 32-bit; it reports overflow) ---- *)
RECURSIVE IPow(_, _)
IPow(x, k) == IF k = 0 THEN 1 ELSE x * IPow(x, k - 1)
QPow(q, k) == IF k >= 0 THEN <<IPow(q[1], k), IPow(q[2], k)>> ELSE <<IPow(q[2], -k), IPow(q[1], -k)>>
QMul(a, b) == <<a[1] * b[1], a[2] * b[2]>>
QAdd(a, b) == <<a[1] * b[2] + b[1] * a[2], a[2] * b[2]>>
QEq(a, b)  == a[2] # 0 /\ b[2] # 0 /\ a[1] * b[2] = b[1] * a[2]
QPos(a)    == a[1] > 0 /\ a[2] > 0
PrimeVal   == ("2" :> 2) @@ ("3" :> 3) @@ ("5" :> 5) @@ ("7" :> 7)
RECURSIVE BagQ(_, _)
BagQ(b, keys) == IF keys = {} THEN <<1, 1>> ELSE LET p == CHOOSE x \in keys : TRUE IN QMul(QPow(<<PrimeVal[p], 1>>, b[p]), BagQ(b, keys \ {p}))
RECURSIVE MonoValue2(_, _, _)       \* Prod_i s[args[i]]^deg2[i]   (= the square of the monomial without its constant)
MonoValue2(d, s, i) == IF i = 0 THEN <<1, 1>> ELSE QMul(QPow(s[d.args[i]], d.deg2[i]), MonoValue2(d, s, i - 1))
RECURSIVE LinValue(_, _, _)
LinValue(d, s, i) == IF i = 0 THEN <<0, 1>> ELSE QAdd(QMul(d.coef[i], s[d.args[i]]), LinValue(d, s, i - 1))
Holds(d, s) == IF d.form = "mono"
               THEN QEq(QPow(s[d.ret], 2), QMul(BagQ(d.c2, DOMAIN d.c2), MonoValue2(d, s, Len(d.args))))      \* ret^2 = c^2 Prod arg^deg2
               ELSE QEq(s[d.ret], LinValue(d, s, Len(d.args)))
IsModel(s) == /\ DOMAIN s = TheoryVars /\ \A t \in DOMAIN s : QPos(s[t])
              /\ \A d \in TheoryFormulas : Holds(d, s)
(* generic: variables of one kind take different values, and the degenerate values at which a wrong formula coincides with the right one are avoided *)
Generic(s) == /\ ~QEq(s.HeatCapacityRatio, <<2, 1>>) /\ ~QEq(s.HeatCapacityRatio, <<1, 1>>) /\ ~QEq(s.MachNumber, <<1, 1>>) /\ ~QEq(s.PrandtlNumber, <<1, 1>>)
              /\ ~QEq(s.MassDensity, <<1, 1>>) /\ ~QEq(s.Mass, <<1, 1>>)
              /\ ~QEq(s.SpecificIsobaricHeatCapacity, s.SpecificIsochoricHeatCapacity) /\ ~QEq(s.SpecificGasConstant, s.SpecificIsochoricHeatCapacity)
              /\ ~QEq(s.StaticPressure, s.DynamicPressure) /\ ~QEq(s.KinematicViscosity, s.ThermalDiffusivity) /\ ~QEq(s.Speed, s.SoundSpeed)
ModelsOK == \A i \in 1..Len(TheoryStates) : IsModel(TheoryStates[i]) /\ Generic(TheoryStates[i])

(* a relation (result type, argument types) is decided by the theory when its types are pairwise distinct variables of it *)
InTheory(ret, args) == /\ ret \in TheoryVars /\ \A i \in 1..Len(args) : args[i] \in TheoryVars /\ args[i] # ret
                       /\ \A i, j \in 1..Len(args) : i # j => args[i] # args[j]
TheoryArgs(s, args) == [i \in 1..Len(args) |-> s[args[i]]]
TheoryResultOK(s, ret, out) == QEq(out, s[ret])
=============================================================================
