------------------------------- MODULE Relations -------------------------------
(* Rules for the relation graph of the library: every operator instance  A op B -> C, every       *)
(* constructor C(A, B, ...) and every quantity-returning member function, each with the           *)
(* fingerprint measured on the real code:                                                          *)
(*    mono        f = c * Prod_a |A_a|^(deg_a)        deg2 = doubled degrees (half-integers),     *)
(*                c^2 a positive rational given as a bag (c2), only for all-scalar relations       *)
(*    linear      f = Sum_a k_a * A_a   (component-wise), k_a = <<num, den>>                      *)
(*    components  f = <<A_1, ..., A_n>>  (a vector or tensor assembled from scalar components)     *)
(*    other       anything else (decided by the numeric layer only)                                *)
(* Hand-written: the homogeneity rules (C03), the meaning of the four operators (C04), what it    *)
(* means for two fingerprints to be twins (C04) or mutual inverses (C05).                          *)
EXTENDS Dims, Mag, FiniteSets

Ops == {"*", "/", "+", "-"}
NumberDims == DZero

(* ---- C03: dimensional homogeneity ---------------------------------------------------------- *)
OpDimsOK(op, dA, dB, dC) ==
  CASE op = "*" -> dC = DAdd(dA, dB)
    [] op = "/" -> dC = DSub(dA, dB)
    [] op \in {"+", "-"} -> dA = dC /\ dB = dC
RECURSIVE WeightedSum(_, _, _)
WeightedSum(deg2, dims, i) == IF i = 0 THEN DZero ELSE DAdd(DScale(deg2[i], dims[i]), WeightedSum(deg2, dims, i - 1))
MonoDimsOK(deg2, argDims, dC) == WeightedSum(deg2, argDims, Len(deg2)) = DScale(2, dC)
LinearDimsOK(coef, argDims, dC) == \A a \in 1..Len(coef) : coef[a][1] # 0 => argDims[a] = dC
ComponentsDimsOK(argDims, dC) == \A a \in 1..Len(argDims) : argDims[a] = dC

(* ---- C04: what the four operators mean, as fingerprints ------------------------------------ *)
(* a normalised operand (a direction) contributes its unit components: degree 0 by construction *)
OpFingerprintOK(op, fp, scalar) ==
  CASE op = "*" -> fp.cls = "mono" /\ fp.deg2 = <<IF fp.norm[1] THEN 0 ELSE 2, IF fp.norm[2] THEN 0 ELSE 2>>
                   /\ (scalar => (fp.has_c /\ AsBag(fp.c2) = One /\ ~fp.neg))
    [] op = "/" -> fp.cls = "mono" /\ fp.deg2 = <<2, -2>> /\ (scalar => (fp.has_c /\ AsBag(fp.c2) = One /\ ~fp.neg))
    [] op = "+" -> fp.cls = "linear" /\ fp.coef = << <<1, 1>>, <<1, 1>> >>
    [] op = "-" -> fp.cls = "linear" /\ fp.coef = << <<1, 1>>, <<-1, 1>> >>
Permute(s, perm) == IF perm = 0 THEN s ELSE <<s[2], s[1]>>
(* a constructor C(A,B) is the twin of the operator A op B -> C when their fingerprints coincide *)
TwinOK(fpOp, fpCtor, perm) ==
  /\ fpOp.cls = fpCtor.cls
  /\ fpOp.cls = "mono" => /\ Permute(fpCtor.deg2, perm) = fpOp.deg2
                          /\ fpOp.has_c = fpCtor.has_c
                          /\ fpOp.has_c => (AsBag(fpOp.c2) = AsBag(fpCtor.c2) /\ fpOp.neg = fpCtor.neg)
  /\ fpOp.cls = "linear" => Permute(fpCtor.coef, perm) = fpOp.coef
  /\ fpOp.cls \in {"mono", "linear"}

(* ---- C05: mutual inverses on fingerprints -------------------------------------------------- *)
(* forward  C = f(A, B)  with A at position posA;  back  A' = g(..C at posC.., B at the other)   *)
(* monomials (doubled degrees): p2A*q2C = 4 ;  p2B*q2C + 2*q2B = 0 ;  c_g * c_f^(qC) = 1          *)
Other(pos) == 3 - pos
MonoInverse(f, g, posA, posC, nargs) ==
  /\ f.deg2[posA] * g.deg2[posC] = 4
  /\ nargs = 2 => f.deg2[Other(posA)] * g.deg2[posC] + 2 * g.deg2[Other(posC)] = 0
  /\ (f.has_c /\ g.has_c) => /\ BagAdd(BagScale(2, AsBag(g.c2)), BagScale(g.deg2[posC], AsBag(f.c2))) = One
                             /\ ~f.neg /\ ~g.neg
(* linear forms with rational coefficients <<n, d>>:  kA*mC = 1 ;  kB*mC + mB = 0 *)
RMul(a, b) == <<a[1] * b[1], a[2] * b[2]>>
RIsOne(a)  == a[1] = a[2] /\ a[2] # 0
RSumZero(a, b) == a[1] * b[2] + b[1] * a[2] = 0
LinearInverse(f, g, posA, posC, nargs) ==
  /\ RIsOne(RMul(f.coef[posA], g.coef[posC]))
  /\ nargs = 2 => RSumZero(RMul(f.coef[Other(posA)], g.coef[posC]), g.coef[Other(posC)])
InverseOK(f, g, posA, posC, nargs) ==
  CASE f.cls = "mono" /\ g.cls = "mono"     -> MonoInverse(f, g, posA, posC, nargs)
    [] f.cls = "linear" /\ g.cls = "linear" -> LinearInverse(f, g, posA, posC, nargs)
    [] OTHER -> TRUE
InverseDecidable(f, g) == (f.cls = "mono" /\ g.cls = "mono") \/ (f.cls = "linear" /\ g.cls = "linear")
(* duality of the operator symbols: which operator can undo which *)
DualOp(opF, posA, opG, posC) ==
  CASE opF = "*" -> opG = "/" /\ posC = 1
    [] opF = "/" /\ posA = 1 -> opG = "*"
    [] opF = "/" /\ posA = 2 -> opG = "/" /\ posC = 2
    [] opF = "+" -> opG = "-" /\ posC = 1
    [] opF = "-" /\ posA = 1 -> opG = "+"
    [] opF = "-" /\ posA = 2 -> opG = "-" /\ posC = 2
    [] OTHER -> FALSE
=============================================================================
