--------------------------- MODULE Fluid_proofs ---------------------------
(* C13, unbounded part: in the specification the viscous stress map is linear in the strain rate  *)
(* and its trace is (2 mu + 3 mub) times the trace of the strain rate - for ALL integer           *)
(* viscosities, coefficients and components - which is what makes the inverse (StrainRate) exist   *)
(* exactly when mu # 0 and 2 mu + 3 mub # 0, the admissible fluids.                                *)
EXTENDS Fluid, TLAPS
S6 == [1..6 -> Int]
LEMMA PLin == \A mu, mub, a, b, x, y, tx, ty \in Int :
                2 * mu * (a * x + b * y) + mub * (a * tx + b * ty) = a * (2 * mu * x + mub * tx) + b * (2 * mu * y + mub * ty)
  OBVIOUS
LEMMA PLin0 == \A mu, a, b, x, y \in Int : 2 * mu * (a * x + b * y) = a * (2 * mu * x) + b * (2 * mu * y)
  OBVIOUS
LEMMA StressSlots == \A mu, mub \in Int, d \in S6 :
     /\ ViscousStress(mu, mub, d)[1] = 2 * mu * d[1] + mub * (d[1] + d[4] + d[6])
     /\ ViscousStress(mu, mub, d)[2] = 2 * mu * d[2] + 0
     /\ ViscousStress(mu, mub, d)[3] = 2 * mu * d[3] + 0
     /\ ViscousStress(mu, mub, d)[4] = 2 * mu * d[4] + mub * (d[1] + d[4] + d[6])
     /\ ViscousStress(mu, mub, d)[5] = 2 * mu * d[5] + 0
     /\ ViscousStress(mu, mub, d)[6] = 2 * mu * d[6] + mub * (d[1] + d[4] + d[6])
  BY DEF ViscousStress, Iso, Tr6, S6
LEMMA PTrace == \A mu, mub, d1, d4, d6 \in Int :
     (2 * mu * d1 + mub * (d1 + d4 + d6)) + (2 * mu * d4 + mub * (d1 + d4 + d6)) + (2 * mu * d6 + mub * (d1 + d4 + d6)) = (2 * mu + 3 * mub) * (d1 + d4 + d6)
  OBVIOUS
THEOREM TraceOfStress == \A mu, mub \in Int, d \in S6 : Tr6(ViscousStress(mu, mub, d)) = (2 * mu + 3 * mub) * Tr6(d)
<1> SUFFICES ASSUME NEW mu \in Int, NEW mub \in Int, NEW d \in S6 PROVE Tr6(ViscousStress(mu, mub, d)) = (2 * mu + 3 * mub) * Tr6(d)
  OBVIOUS
<1>1. d[1] \in Int /\ d[4] \in Int /\ d[6] \in Int BY DEF S6
<1> QED BY <1>1, StressSlots, PTrace DEF Tr6
LEMMA CombineSlots == \A a, b \in Int, x, y \in S6 : Combine(a, x, b, y) \in S6 /\ \A i \in 1..6 : Combine(a, x, b, y)[i] = a * x[i] + b * y[i]
  BY DEF Combine, S6
THEOREM OffDiagonalLinear == \A mu, mub, a, b \in Int, x, y \in S6 : \A i \in {2, 3, 5} :
     ViscousStress(mu, mub, Combine(a, x, b, y))[i] = a * ViscousStress(mu, mub, x)[i] + b * ViscousStress(mu, mub, y)[i]
<1> SUFFICES ASSUME NEW mu \in Int, NEW mub \in Int, NEW a \in Int, NEW b \in Int, NEW x \in S6, NEW y \in S6, NEW i \in {2, 3, 5}
             PROVE ViscousStress(mu, mub, Combine(a, x, b, y))[i] = a * ViscousStress(mu, mub, x)[i] + b * ViscousStress(mu, mub, y)[i]
  OBVIOUS
<1>1. x[i] \in Int /\ y[i] \in Int BY DEF S6
<1>2. Combine(a, x, b, y) \in S6 /\ Combine(a, x, b, y)[i] = a * x[i] + b * y[i] BY CombineSlots
<1> QED BY <1>1, <1>2, StressSlots, PLin0
THEOREM DiagonalLinear == \A mu, mub, a, b \in Int, x, y \in S6 : \A i \in {1, 4, 6} :
     ViscousStress(mu, mub, Combine(a, x, b, y))[i] = a * ViscousStress(mu, mub, x)[i] + b * ViscousStress(mu, mub, y)[i]
<1> SUFFICES ASSUME NEW mu \in Int, NEW mub \in Int, NEW a \in Int, NEW b \in Int, NEW x \in S6, NEW y \in S6, NEW i \in {1, 4, 6}
             PROVE ViscousStress(mu, mub, Combine(a, x, b, y))[i] = a * ViscousStress(mu, mub, x)[i] + b * ViscousStress(mu, mub, y)[i]
  OBVIOUS
<1> DEFINE c == Combine(a, x, b, y)
<1> DEFINE tx == x[1] + x[4] + x[6]
<1> DEFINE ty == y[1] + y[4] + y[6]
<1>1. x[1] \in Int /\ x[4] \in Int /\ x[6] \in Int /\ y[1] \in Int /\ y[4] \in Int /\ y[6] \in Int /\ x[i] \in Int /\ y[i] \in Int BY DEF S6
<1>2. c \in S6 /\ c[1] = a * x[1] + b * y[1] /\ c[4] = a * x[4] + b * y[4] /\ c[6] = a * x[6] + b * y[6] /\ c[i] = a * x[i] + b * y[i] BY CombineSlots
<1>3. tx \in Int /\ ty \in Int BY <1>1
<1>4. c[1] + c[4] + c[6] = a * tx + b * ty BY <1>1, <1>2
<1>5. ViscousStress(mu, mub, c)[i] = 2 * mu * c[i] + mub * (c[1] + c[4] + c[6]) BY <1>2, StressSlots
<1>6. ViscousStress(mu, mub, x)[i] = 2 * mu * x[i] + mub * tx /\ ViscousStress(mu, mub, y)[i] = 2 * mu * y[i] + mub * ty BY StressSlots
<1>7. 2 * mu * (a * x[i] + b * y[i]) + mub * (a * tx + b * ty) = a * (2 * mu * x[i] + mub * tx) + b * (2 * mu * y[i] + mub * ty) BY <1>1, <1>3, PLin
<1>8. 2 * mu * c[i] + mub * (c[1] + c[4] + c[6]) = 2 * mu * (a * x[i] + b * y[i]) + mub * (a * tx + b * ty) BY <1>2, <1>4
<1>9. a * ViscousStress(mu, mub, x)[i] + b * ViscousStress(mu, mub, y)[i] = a * (2 * mu * x[i] + mub * tx) + b * (2 * mu * y[i] + mub * ty) BY <1>6
<1>10. c = Combine(a, x, b, y) OBVIOUS
<1> HIDE DEF c, tx, ty
<1> QED BY <1>5, <1>7, <1>8, <1>9, <1>10
=============================================================================
