------------------------------- MODULE Order -------------------------------
(* C14: comparison of quantities, vectors and tensors is the lexicographic order of their stored  *)
(* component sequences in declared slot order; the six operators are derived from it; == is its   *)
(* equivalence; equal objects hash equally.  Components are given as order ranks (integers):      *)
(* -inf < -2 < -1 < (-0 = +0) < 1 < 2 < +inf  are the ranks 0..6, so the signed zeros tie.        *)
EXTENDS Integers, Sequences
RECURSIVE LexLessAt(_, _, _)
LexLessAt(a, b, i) == IF i > Len(a) THEN FALSE
                      ELSE IF a[i] # b[i] THEN a[i] < b[i] ELSE LexLessAt(a, b, i + 1)
LexLess(a, b) == LexLessAt(a, b, 1)
LexEq(a, b)   == a = b
Compare(a, b) == [lt |-> LexLess(a, b), gt |-> LexLess(b, a), le |-> ~LexLess(b, a), ge |-> ~LexLess(a, b),
                  eq |-> LexEq(a, b), ne |-> ~LexEq(a, b)]
HashCongruent(a, b, hashEqual) == LexEq(a, b) => hashEqual
=============================================================================
