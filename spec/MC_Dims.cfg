SPECIFICATION Spec
CONSTANTS MaxA = 2 MaxB = 1 MaxC = 1
INVARIANTS Trichotomy Transitive Irreflexive PrintSound Derived
CONSTRAINT Scope
CHECK_DEADLOCK FALSE
