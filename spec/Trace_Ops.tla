------------------------------- MODULE Trace_Ops -------------------------------
(* K3 for C04 (exact sub-domain): recorded executions of every operator instance of the extracted *)
(* relation graph on small-integer operands, in float, double and long double.  TLC recomputes     *)
(* the result from the operands: component-wise arithmetic on the stored SI values, operands in    *)
(* the written order, a scalar operand broadcast over the components of the other.                 *)
EXTENDS Integers, Sequences, Json, IOUtils, TLC, FiniteSets
Events == ndJsonDeserialize(IOEnv.TRACE)
Graph  == JsonDeserialize(IOEnv.GRAPH)        \* "A|op|B" |-> result type  (from compile-time detection)
VARIABLES l, bad, seen
vars == <<l, bad, seen>>
Init == l = 1 /\ bad = <<>> /\ seen = {}
Bc(v, i) == IF Len(v) = 1 THEN v[1] ELSE v[i]
Max(x, y) == IF x >= y THEN x ELSE y
N(a, b) == Max(Len(a), Len(b))
Apply(op, a, b) == [i \in 1..N(a, b) |->
   CASE op = "+" -> Bc(a, i) + Bc(b, i) [] op = "-" -> Bc(a, i) - Bc(b, i) [] op = "*" -> Bc(a, i) * Bc(b, i)]
(* exact division is stated without dividing: out * b = a *)
DivOK(a, b, out) == Len(out) = N(a, b) /\ \A i \in 1..N(a, b) : Bc(b, i) # 0 /\ out[i] * Bc(b, i) = Bc(a, i)
(* the one operator whose result has more components than its operands: scalar * scalar -> isotropic *)
(* symmetric tensor (volumetric thermal strain  beta*dT/3 * I):  3 * out = a*b on the diagonal        *)
IsoOK(a, b, out) == Len(out) = 6 /\ 3 * out[1] = a[1] * b[1] /\ out[4] = out[1] /\ out[6] = out[1]
                    /\ out[2] = 0 /\ out[3] = 0 /\ out[5] = 0
Correct(r) == IF Len(r.out) = 6 /\ Len(r.a) = 1 /\ Len(r.b) = 1 /\ r.op = "*" THEN IsoOK(r.a, r.b, r.out)
              ELSE IF r.op = "/" THEN DivOK(r.a, r.b, r.out) ELSE r.out = Apply(r.op, r.a, r.b)
TBinOp == LET r == Events[l] IN
  /\ l <= Len(Events) /\ r.e = "BinOp" /\ l' = l + 1
  /\ r.k \in DOMAIN Graph /\ Graph[r.k] = r.ret /\ r.num \in {"f", "d", "l"} /\ r.op \in {"+", "-", "*", "/"}
  /\ bad' = IF (r.exact /\ Correct(r)) \/ Len(bad) >= 400 THEN bad ELSE Append(bad, [cls |-> "binop", k |-> r.k, num |-> r.num, a |-> r.a, b |-> r.b, out |-> r.out])
  /\ seen' = seen \cup {<<r.k, r.num>>}
TFinish == /\ l = Len(Events) + 1 /\ l' = l + 1
           /\ JsonSerialize(IOEnv.OUT, [bad |-> bad, covered |-> Cardinality(seen),
                                         expected |-> 3 * Cardinality(DOMAIN Graph)])
           /\ UNCHANGED <<bad, seen>>
Next == TBinOp \/ TFinish
Spec == Init /\ [][Next]_vars
Accepted == TLCGet("stats").diameter - 2 = Len(Events)
=============================================================================
