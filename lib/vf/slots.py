"""The component store of the raw shapes (spec/Slots.tla): MC_Slots model-checked by TLC; K3 validation of random programs
over every named setter / mutable reference / whole-tuple setter executed on the real code (harness/slots.cpp)."""
import json
import os

from . import common as C


def run(tier, chk, pid):
    thorough = tier == 'thorough'
    mc = C.run_tlc('MC_Slots', 'MC_Slots.cfg' if thorough else 'MC_Slots_quick.cfg', workers=8, timeout=1500, coverage=True)
    chk.add_tlc('MC_Slots(named components are views of numbered slots; all shapes, every write sequence over a small value set)', mc)
    if not mc.ok:
        raise C.ToolError('MC_Slots: the slot store design violates its own properties\n' + mc.out[-1500:])
    # unbounded complement (TLAPS, SMT back end): the write/read, aliasing and symmetry laws for ALL integer component values
    import re, shutil, subprocess
    pw = C.work_dir('tlaps')
    for f in ('Slots.tla', 'Slots_proofs.tla'):
        shutil.copy(os.path.join(C.SPEC, f), pw)
    try:
        pr = subprocess.run(['tlapm', 'Slots_proofs.tla'], cwd=pw, stdout=subprocess.PIPE, stderr=subprocess.STDOUT, timeout=600)
        pout = pr.stdout.decode(errors='replace')
    except (subprocess.TimeoutExpired, FileNotFoundError) as ex:
        pr, pout = None, str(ex)
    m = re.search(r'All (\d+) obligations? proved', pout)
    if m:
        chk.layer('S.proofs', tlaps_obligations_proved=int(m.group(1)), note='Slots_proofs.tla: SlotInRange, WriteReadAll, SymmetricReadsAll, AliasAll, EmbedSymmetric over all integer values (tlapm, SMT)')
    else:
        raise C.ToolError('tlapm did not prove Slots_proofs.tla:\n' + pout[-1500:])
    exe = C.compile_cxx('slots', [os.path.join(C.HARNESS, 'slots.cpp')], flags=['-std=c++17', '-O1', '-fno-fast-math', '-w'], timeout=1200)
    wd = C.work_dir('slots')
    out = C.run([exe, str(C.SEED), '400' if thorough else '60'], timeout=600).stdout.decode()
    evs = [json.loads(x) for x in out.splitlines() if x.startswith('{')]
    tp = C.write_ndjson(os.path.join(wd, 'slots.ndjson'), evs)
    outp = os.path.join(wd, 'slots_out.json')
    res = C.run_tlc('Trace_Slots', 'Trace_Slots.cfg', env={'TRACE': tp, 'OUT': outp}, workers=1, timeout=1200)
    chk.add_tlc('Trace_Slots(K3: setter / mutable-reference / read programs on raw shapes and quantity values)', res, traces=24, events=len(evs))
    if not (res.ok and os.path.exists(outp)):
        k = res.distinct - 1
        e = evs[k] if 0 <= k < len(evs) else None
        chk.violation(f'slot_trace_rejected:{(e or {}).get("shape")}:{(e or {}).get("e")}:{(e or {}).get("name")}', f'Trace_Slots rejected event {k}: {e}', e)
        return
    j = json.load(open(outp))
    for b in j['bad']:
        e = evs[b['at'] - 1]
        chk.violation(f"slot_semantics:{b['shape']}:{b['act']}:{b['name']}", f"{b['shape']} ({b['carrier']}, {b['num']}) {b['act']} {b['name']}: logged state differs from Slots.tla: {json.dumps(e)[:300]}", e)
    if j['stat']['names_missing']:
        chk.note_inconclusive(f"slot names not exercised: {j['stat']['names_missing']}")
    chk.layer('S.slots', executions=j['stat']['executions'], steps=j['stat']['steps'], writes=j['stat']['writes'], reads=j['stat']['reads'],
              mc_distinct_states=mc.distinct,
              note='Slots.tla: named Cartesian components are views of numbered slots (six slots behind the nine names of a symmetric dyad); every Set_<name>, Mutable_<name>, '
                   'whole-tuple setter (array, component list, mutable array, assignment), Zero(), dyad-from-symmetric-dyad and IsSymmetric on the four raw shapes and through '
                   'MutableValue()/Value()/SetValue() of one quantity type per shape, three numeric types; TLC recomputes every successor state')
    chk.count(evaluations=j['stat']['steps'], distinct=j['stat']['steps'])
    chk.sample(evs[1])
