------------------------------- MODULE Store -------------------------------
(* The register machine of DESIGN section 1, for one quantity type "Self" of a given shape:       *)
(* a user program owns registers holding objects; every public entry point is one action.         *)
(* State is the abstract state the API itself exposes: the stored SI components of each object.   *)
(* TLC explores this machine (BFS at small scope, simulation at larger scope) and the behaviours   *)
(* are replayed into the real library for every concrete quantity type of the shape and all three *)
(* numeric types, comparing the whole projected state after every step (binding K2).              *)
(* Values are small integers so that IEEE arithmetic is exact in float: the real result must be   *)
(* bit-identical to the specification's.                                                          *)
EXTENDS Integers, Sequences, FiniteSets, TLC, Json

CONSTANTS Regs,      \* register names
          NComp,     \* number of components of the shape: 1, 2, 3, 6 or 9
          Patterns,  \* sequence of component tuples objects are constructed from (distinct per slot)
          Nums,      \* plain-number operands
          Caps,      \* capabilities of the type: subset of {"add","sub","muln","nmul","divn","ratio","addeq","subeq","muleq","diveq","set","mutable"}
          Factor,    \* SI magnitude (an integer) of the one non-standard unit used by the unit actions; 0: no unit actions
          MaxAbs,    \* bound keeping every value exactly representable in float
          Depth      \* length of generated behaviours

VARIABLES store, obs, last, hist
vars == <<store, obs, last, hist>>
Undef == <<>>                                   \* a register that holds no object yet
Defined(r) == store[r] # Undef
Small(v) == \A i \in 1..Len(v) : v[i] \in -MaxAbs..MaxAbs
ZeroV == [i \in 1..NComp |-> 0]

(* ---- the meaning of arithmetic on quantities: component-wise arithmetic on stored values ------ *)
Plus(a, b)   == [i \in 1..NComp |-> a[i] + b[i]]
Minus(a, b)  == [i \in 1..NComp |-> a[i] - b[i]]
Times(a, n)  == [i \in 1..NComp |-> a[i] * n]
Abs(x) == IF x < 0 THEN -x ELSE x
Divisible(a, n) == n # 0 /\ \A i \in 1..NComp : a[i] % Abs(n) = 0          \* exact quotients only
ExactDiv(x, n)  == IF n > 0 THEN x \div n ELSE (-x) \div (-n)                 \* TLC wants a positive divisor
Quot(a, n)   == [i \in 1..NComp |-> ExactDiv(a[i], n)]
(* ratio of two scalar quantities of the same type is a plain number (exact quotients only) *)
RatioDefined(a, b) == NComp = 1 /\ b[1] # 0 /\ a[1] % Abs(b[1]) = 0
Ratio(a, b)  == ExactDiv(a[1], b[1])

Log(act, dst, a, b, n) == /\ last' = [act |-> act, dst |-> dst, a |-> a, b |-> b, n |-> n]
                          /\ hist' = Append(hist, [act |-> act, dst |-> dst, a |-> a, b |-> b, n |-> n,
                                                   st |-> store', obs |-> obs'])
Write(r, v) == store' = [store EXCEPT ![r] = v]
NoObs == obs' = <<>>

(* ---- construction ---- *)
Construct(r, k) == /\ Write(r, Patterns[k]) /\ NoObs /\ Log("Construct", r, "", "", k)
Zero(r)         == /\ Write(r, ZeroV) /\ NoObs /\ Log("Zero", r, "", "", 0)
CopyConstruct(r, s) == /\ Defined(s) /\ Write(r, store[s]) /\ NoObs /\ Log("Copy", r, s, "", 0)       \* Q r(s); s unchanged
Assign(r, s)    == /\ Defined(r) /\ Defined(s) /\ Write(r, store[s]) /\ NoObs /\ Log("Assign", r, s, "", 0)
MoveFrom(r, s)  == /\ Defined(s) /\ r # s /\ Write(r, store[s]) /\ NoObs /\ Log("Move", r, s, "", 0)   \* trivially copyable: source keeps its value
(* ---- units: a value supplied with a unit is converted once, on construction, to the standard unit; every way of reading it back ----*)
(* ---- in that unit returns the original number (C02).  The unit has SI magnitude Factor.                                      ----*)
ConstructIn(r, k) == /\ Factor > 0 /\ Small(Times(Patterns[k], Factor))
                     /\ Write(r, Times(Patterns[k], Factor)) /\ NoObs /\ Log("ConstructIn", r, "", "", k)      \* Q(value, unit)
CreateIn(r, k)    == /\ Factor > 0 /\ Small(Times(Patterns[k], Factor))
                     /\ Write(r, Times(Patterns[k], Factor)) /\ NoObs /\ Log("CreateIn", r, "", "", k)         \* Q::Create<unit>(value)
ReadIn(r, how)    == /\ Factor > 0 /\ Defined(r) /\ Divisible(store[r], Factor)
                     /\ obs' = Quot(store[r], Factor) /\ UNCHANGED store /\ Log(how, "", r, "", 0)              \* Value(unit), StaticValue<unit>(), Print(unit)
(* ---- pure operators: the result is a new object stored in dst; operands unchanged ---- *)
Add(d, a, b) == /\ "add" \in Caps /\ Defined(a) /\ Defined(b) /\ Small(Plus(store[a], store[b]))
                /\ Write(d, Plus(store[a], store[b])) /\ NoObs /\ Log("Add", d, a, b, 0)
Sub(d, a, b) == /\ "sub" \in Caps /\ Defined(a) /\ Defined(b) /\ Small(Minus(store[a], store[b]))
                /\ Write(d, Minus(store[a], store[b])) /\ NoObs /\ Log("Sub", d, a, b, 0)
MulN(d, a, n) == /\ "muln" \in Caps /\ Defined(a) /\ Small(Times(store[a], n))
                 /\ Write(d, Times(store[a], n)) /\ NoObs /\ Log("MulN", d, a, "", n)
NMul(d, n, a) == /\ "nmul" \in Caps /\ Defined(a) /\ Small(Times(store[a], n))
                 /\ Write(d, Times(store[a], n)) /\ NoObs /\ Log("NMul", d, a, "", n)
DivN(d, a, n) == /\ "divn" \in Caps /\ Defined(a) /\ Divisible(store[a], n)
                 /\ Write(d, Quot(store[a], n)) /\ NoObs /\ Log("DivN", d, a, "", n)
RatioOf(a, b) == /\ "ratio" \in Caps /\ Defined(a) /\ Defined(b) /\ RatioDefined(store[a], store[b])
                 /\ obs' = <<Ratio(store[a], store[b])>> /\ UNCHANGED store /\ Log("Ratio", "", a, b, 0)
(* ---- compound assignments: must leave exactly what the pure operator would ---- *)
AddEq(a, b) == /\ "addeq" \in Caps /\ Defined(a) /\ Defined(b) /\ Small(Plus(store[a], store[b]))
               /\ Write(a, Plus(store[a], store[b])) /\ NoObs /\ Log("AddEq", a, a, b, 0)
SubEq(a, b) == /\ "subeq" \in Caps /\ Defined(a) /\ Defined(b) /\ Small(Minus(store[a], store[b]))
               /\ Write(a, Minus(store[a], store[b])) /\ NoObs /\ Log("SubEq", a, a, b, 0)
MulEq(a, n) == /\ "muleq" \in Caps /\ Defined(a) /\ Small(Times(store[a], n))
               /\ Write(a, Times(store[a], n)) /\ NoObs /\ Log("MulEq", a, a, "", n)
DivEq(a, n) == /\ "diveq" \in Caps /\ Defined(a) /\ Divisible(store[a], n)
               /\ Write(a, Quot(store[a], n)) /\ NoObs /\ Log("DivEq", a, a, "", n)
(* ---- mutators and accessors ---- *)
SetValue(r, k)     == /\ "set" \in Caps /\ Defined(r) /\ Write(r, Patterns[k]) /\ NoObs /\ Log("SetValue", r, "", "", k)
MutableWrite(r, k) == /\ "mutable" \in Caps /\ Defined(r) /\ Write(r, Patterns[k]) /\ NoObs /\ Log("MutableWrite", r, "", "", k)
ReadValue(r)       == /\ Defined(r) /\ obs' = store[r] /\ UNCHANGED store /\ Log("ReadValue", "", r, "", 0)
Serialize(r)       == /\ Defined(r) /\ obs' = store[r] /\ UNCHANGED store /\ Log("Serialize", "", r, "", 0)   \* Print/JSON/XML/YAML/<<

NoAct == [act |-> "", dst |-> "", a |-> "", b |-> "", n |-> 0]
Init == store = [r \in Regs |-> Undef] /\ obs = <<>> /\ last = NoAct /\ hist = <<>>
Next == \/ \E r \in Regs, k \in 1..Len(Patterns) : Construct(r, k) \/ SetValue(r, k) \/ MutableWrite(r, k)
        \/ \E r \in Regs : Zero(r) \/ ReadValue(r) \/ Serialize(r)
        \/ \E r \in Regs, k \in 1..Len(Patterns) : ConstructIn(r, k) \/ CreateIn(r, k)
        \/ \E r \in Regs, how \in {"ReadIn", "StaticReadIn", "PrintIn"} : ReadIn(r, how)
        \/ \E r, s \in Regs : CopyConstruct(r, s) \/ Assign(r, s) \/ MoveFrom(r, s) \/ AddEq(r, s) \/ SubEq(r, s) \/ RatioOf(r, s)
        \/ \E d, a, b \in Regs : Add(d, a, b) \/ Sub(d, a, b)
        \/ \E d, a \in Regs, n \in Nums : MulN(d, a, n) \/ NMul(d, n, a) \/ DivN(d, a, n)
        \/ \E a \in Regs, n \in Nums : MulEq(a, n) \/ DivEq(a, n)
Spec == Init /\ [][Next]_vars

(* ---- properties of the machine itself (checked by MC_Store) ---- *)
TypeOK == \A r \in Regs : store[r] = Undef \/ (Len(store[r]) = NComp /\ Small(store[r]))
(* reads never change the store; compound forms equal pure forms; copying forms keep their argument *)
ReadsAreReadOnly == [][last'.act \in {"ReadValue", "Serialize", "Ratio", "ReadIn", "StaticReadIn", "PrintIn"} => store' = store]_vars
(* constructing in a unit and reading back in that unit returns the original number *)
ReadBack == [][(last.act \in {"ConstructIn", "CreateIn"} /\ last'.act \in {"ReadIn", "StaticReadIn", "PrintIn"} /\ last'.a = last.dst) => obs' = Patterns[last.n]]_vars
CompoundEqualsPure ==
  [][/\ last'.act = "AddEq" => store'[last'.a] = Plus(store[last'.a], store[last'.b])
     /\ last'.act = "SubEq" => store'[last'.a] = Minus(store[last'.a], store[last'.b])
     /\ last'.act = "MulEq" => store'[last'.a] = Times(store[last'.a], last'.n)
     /\ last'.act = "DivEq" => Times(store'[last'.a], last'.n) = store[last'.a]]_vars
OperandsUnchanged ==
  [][last'.act \in {"Add", "Sub", "MulN", "NMul", "DivN", "Copy", "Move"} =>
       \A r \in Regs : r # last'.dst => store'[r] = store[r]]_vars
ZeroIsZero == [][last'.act = "Zero" => store'[last'.dst] = ZeroV]_vars
Bound == Len(hist) <= Depth
Emit  == Len(hist) # Depth \/ PrintT(<<"BEHAVIOUR", ToJson(hist)>>)
View  == <<store, obs, last, Len(hist)>>
=============================================================================
