SPECIFICATION Spec
CONSTANTS Regs = {"r1", "r2", "r3"}  NComp = 1  Patterns <- P1  Nums <- NumsSim  Caps <- UnitCaps  Factor = 1000  MaxAbs = 16000000  Depth = 10
INVARIANT TypeOK
INVARIANT Emit
CONSTRAINT Bound
CHECK_DEADLOCK FALSE
