"""Generates the conversion harness (C01 numeric layer, static-vs-runtime part of C02).
Run-time Convert over ordered unit pairs and ConvertStatically over generated pairs, three numeric
types; every result is compared with the exact value  (x + off_a) * mag_a / mag_b - off_b  evaluated
in __float128 from the magnitudes the specification derived from the unit symbols (file argv[1]).
Output: one abstract event per (type, from, to, num, entry)."""

PRE = r'''
#include <cstdio>
#include <cstdint>
#include <cmath>
#include <cstring>
#include <cstdlib>
#include <map>
#include <random>
#include <string>
#include <vector>
#include <array>
#include <limits>
#include <quadmath.h>
%(includes)s
using namespace PhQ;
typedef __float128 Q;
template<class E> struct NameTab { E v; const char* n; };
struct Mag { Q mag; bool has_off; Q off; };
static std::map<std::string, Mag> MAGS;   // "Type/Name"
static Q PIQ(){ static Q p = strtoflt128("3.14159265358979323846264338327950288419716939937510",0); return p; }
static void load_mags(const char* path){
  FILE* f=fopen(path,"r"); if(!f){ perror(path); exit(3);} char t[128],n[128],num[256],den[256],on[128],od[128]; int k,ho;
  while(fscanf(f,"%%127s %%127s %%255s %%255s %%d %%d %%127s %%127s",t,n,num,den,&k,&ho,on,od)==8){
    Q m = strtoflt128(num,0)/strtoflt128(den,0); for(int i=0;i<k;i++) m*=PIQ(); for(int i=0;i<-k;i++) m/=PIQ();
    Mag g; g.mag=m; g.has_off=ho; g.off = ho? strtoflt128(on,0)/strtoflt128(od,0) : (Q)0; MAGS[std::string(t)+"/"+n]=g; }
  fclose(f); }
template<class T> struct NT;
template<> struct NT<float>{ static constexpr const char* c="f"; };
template<> struct NT<double>{ static constexpr const char* c="d"; };
template<> struct NT<long double>{ static constexpr const char* c="l"; };
template<class T> static Q ulp_of(Q x){ x = fabsq(x); const int p = std::numeric_limits<T>::digits;
  if(x < (Q)std::numeric_limits<T>::min()) return (Q)std::numeric_limits<T>::denorm_min();
  int e; frexpq(x,&e); return ldexpq((Q)1, e-p); }
struct Acc { double worst=0; long n=0; int zero=1, sym=1; unsigned classes=0; long double wx=0; int nonfinite=0; long seq_n=0, seq_diff=0; };
template<class T> static bool biteq(T a, T b){ return std::memcmp(&a,&b, sizeof(T)>10? 10 : sizeof(T))==0 || (a!=a && b!=b); }
// the sequence overloads (std::array, std::vector, PlanarVector, Vector, SymmetricDyad, Dyad) must return, component by component, what the scalar overload returns
// ... within two representable neighbours (each result is within one ulp of the exact value); in the unchanged library they are bit-identical, but an overload may legitimately
// take a shortcut (same unit, standard unit on one side) that another does not
template<class T> static bool within1(T a, T b){ if(biteq(a,b)) return true; if(a!=a || b!=b) return false; if(a==b) return true; const T inf=std::numeric_limits<T>::infinity(); T up=std::nextafter(b,inf), dn=std::nextafter(b,-inf);
  return a==up || a==dn || a==std::nextafter(up,inf) || a==std::nextafter(dn,-inf); }   // two neighbours: one overload may round twice (through the standard unit) where another takes an exact shortcut
template<class T> static void seqcmp(Acc& acc, const T* got, const std::vector<T>& want, size_t at, size_t n){ for(size_t c=0;c<n;c++){ acc.seq_n++; if(!within1(got[c], want[(at+c)%%want.size()])) acc.seq_diff++; } }
template<class T, size_t N> static std::array<T,N> take(const std::vector<T>& v, size_t at){ std::array<T,N> a{}; for(size_t c=0;c<N;c++) a[c]=v[(at+c)%%v.size()]; return a; }
template<class U, class T> static void runtime_sequences(Acc& acc, const std::vector<T>& xs, const std::vector<T>& ys, U a, U b){
  for(size_t at=0; at<xs.size(); at+=7){
    { auto in=take<T,5>(xs,at); auto o=Convert(in,a,b); seqcmp(acc,o.data(),ys,at,5); auto io=in; ConvertInPlace(io,a,b); seqcmp(acc,io.data(),ys,at,5); }
    { auto in=take<T,4>(xs,at); std::vector<T> v(in.begin(),in.end()); auto o=Convert(v,a,b); seqcmp(acc,o.data(),ys,at,4); ConvertInPlace(v,a,b); seqcmp(acc,v.data(),ys,at,4); }
    { PlanarVector<T> in(take<T,2>(xs,at)); auto o=Convert(in,a,b); seqcmp(acc,o.x_y().data(),ys,at,2); ConvertInPlace(in,a,b); seqcmp(acc,in.x_y().data(),ys,at,2); }
    { Vector<T> in(take<T,3>(xs,at)); auto o=Convert(in,a,b); seqcmp(acc,o.x_y_z().data(),ys,at,3); ConvertInPlace(in,a,b); seqcmp(acc,in.x_y_z().data(),ys,at,3); }
    { SymmetricDyad<T> in(take<T,6>(xs,at)); auto o=Convert(in,a,b); seqcmp(acc,o.xx_xy_xz_yy_yz_zz().data(),ys,at,6); ConvertInPlace(in,a,b); seqcmp(acc,in.xx_xy_xz_yy_yz_zz().data(),ys,at,6); }
    { Dyad<T> in(take<T,9>(xs,at)); auto o=Convert(in,a,b); seqcmp(acc,o.xx_xy_xz_yx_yy_yz_zx_zy_zz().data(),ys,at,9); ConvertInPlace(in,a,b); seqcmp(acc,in.xx_xy_xz_yx_yy_yz_zx_zy_zz().data(),ys,at,9); }
    { T one=xs[at]; ConvertInPlace(one,a,b); seqcmp(acc,&one,ys,at,1); } } }
template<class U, U a, U b, class T> static void static_sequences(Acc& acc, const std::vector<T>& xs, const std::vector<T>& ys){
  for(size_t at=0; at<xs.size(); at+=7){
    { auto o=ConvertStatically<U,a,b>(take<T,5>(xs,at)); seqcmp(acc,o.data(),ys,at,5); }
    { auto o=ConvertStatically<U,a,b>(PlanarVector<T>(take<T,2>(xs,at))); seqcmp(acc,o.x_y().data(),ys,at,2); }
    { auto o=ConvertStatically<U,a,b>(Vector<T>(take<T,3>(xs,at))); seqcmp(acc,o.x_y_z().data(),ys,at,3); }
    { auto o=ConvertStatically<U,a,b>(SymmetricDyad<T>(take<T,6>(xs,at))); seqcmp(acc,o.xx_xy_xz_yy_yz_zz().data(),ys,at,6); }
    { auto o=ConvertStatically<U,a,b>(Dyad<T>(take<T,9>(xs,at))); seqcmp(acc,o.xx_xy_xz_yx_yy_yz_zx_zy_zz().data(),ys,at,9); } } }
template<class T> static std::vector<T> values(uint64_t seed, Q la, Q lr, bool affine, int per){
  // exponents e such that x, x*mag_a and the result stay well inside the normal range
  // margin to the ends of the normal range: every leg of a multiplicative conversion is ONE multiplication or division by a constant, so nothing may overflow or lose
  // precision unless x, its SI image or the result itself comes within two binades of the ends; the affine (degree Celsius / Fahrenheit) bodies keep a wide margin
  const int margin = affine ? 16 : 2;
  const int emin = std::numeric_limits<T>::min_exponent + margin, emax = std::numeric_limits<T>::max_exponent - margin;
  double a = (double)la, r = (double)lr;
  int lo = emin - (int)std::floor(std::min(0.0, std::min(a, r))) , hi = emax - (int)std::ceil(std::max(0.0, std::max(a, r)));
  std::vector<T> v; std::mt19937_64 g(seed);
  v.push_back((T)0); v.push_back(-(T)0); v.push_back((T)1); v.push_back((T)-1);
  if(lo>hi){ std::vector<T> z; z.push_back((T)0); z.push_back(-(T)0); return z; }
  auto mant=[&](){ return (T)(1.0L + (long double)(g()>>11)/(long double)(1ULL<<53)); };
  int span = hi-lo;
  for(int i=0;i<per;i++){ int e = lo + (int)((long long)span*i/std::max(1,per-1)); T x = std::ldexp(mant(), e); v.push_back(x); v.push_back(-x); }
  for(int i=0;i<per;i++){ int e = lo + (int)(g()%%(uint64_t)(span+1)); T x = std::ldexp(mant(), e); v.push_back((g()&1)? x : -x); }
  // edges of the admissible range and values around one
  v.push_back(std::ldexp(mant(), lo)); v.push_back(-std::ldexp(mant(), hi)); v.push_back(std::ldexp(mant(), hi)); v.push_back(-std::ldexp(mant(), lo));
  v.push_back((T)3); v.push_back((T)-7); v.push_back((T)0.1L); v.push_back((T)1000); v.push_back((T)273.15L); v.push_back((T)-40);
  // keep only values whose SI intermediate and result stay inside the admissible range ("does not overflow")
  std::vector<T> w; for(T x: v){ if(x==0){ w.push_back(x); continue; } int e; std::frexp(x,&e); if(e-1>=lo && e-1<=hi) w.push_back(x); }
  return w; }
template<class T> static unsigned cls_of(T x){ if(x==0) return 1; T a=std::fabs(x); unsigned s = x<0 ? 16u:0u; const int h = std::numeric_limits<T>::max_exponent/2;
  int e; std::frexp(a,&e); unsigned m = e < -h ? 2u : e < -8 ? 4u : e <= 8 ? 8u : e <= h ? 32u : 64u; return m | (s? 128u:256u); }
template<class T> static void score(Acc& acc, T x, T got, const Mag& A, const Mag& B){
  Q exact = ((Q)x + A.off) * A.mag / B.mag - B.off;
  bool affine = A.has_off || B.has_off;
  Q scale = fabsq(exact);
  if(affine){ Q s2 = fabsq((Q)x); if(s2>scale) scale=s2; Q o = fabsq(A.off*A.mag); if(o>scale) scale=o; o=fabsq(B.off); if(o>scale) scale=o; Q k=fabsq(((Q)x + A.off) * A.mag); if(k>scale) scale=k; }
  if(!std::isfinite((long double)got)){ acc.nonfinite++; acc.worst = 1e30; acc.wx=(long double)x; acc.n++; return; }
  double u = (double)(fabsq((Q)got - exact) / ulp_of<T>(scale));
  if(x==0 && !affine){ if(!(got==0)) acc.zero=0; u = got==0 ? 0 : 1e30; }
  if(u > acc.worst){ acc.worst=u; acc.wx=(long double)x; }
  acc.n++; acc.classes |= cls_of(x);
}
template<class T> static void emit(const char* Ty, const char* a, const char* b, const char* entry, bool affine, const Acc& acc, double rt_static_ulps){
  double w = acc.worst; long wi = w > 1e9 ? 1000000000L : (long)std::ceil(w);
  printf("{\"e\":\"Conv\",\"type\":\"%%s\",\"from\":\"%%s\",\"to\":\"%%s\",\"num\":\"%%s\",\"entry\":\"%%s\",\"affine\":%%s,\"ulps\":%%ld,\"n\":%%ld,\"zero\":%%d,\"sym\":%%d,\"classes\":%%u,\"nonfinite\":%%d,\"vs_runtime\":%%ld,\"seq_n\":%%ld,\"seq_diff\":%%ld,\"witness\":\"%%La\"}\n",
    Ty,a,b,NT<T>::c,entry,affine?"true":"false",wi,acc.n,acc.zero,acc.sym,acc.classes,acc.nonfinite,(long)std::ceil(rt_static_ulps),acc.seq_n,acc.seq_diff,acc.wx); }
template<class T> static double ulps_between(T a, T b){ if(a==b) return 0; if(!std::isfinite((long double)a)||!std::isfinite((long double)b)) return 1e9; Q s = fabsq((Q)a)>fabsq((Q)b)? (Q)a:(Q)b; return (double)(fabsq((Q)a-(Q)b)/ulp_of<T>(s)); }

template<class U, class T, size_t N> static void runtime_pairs(const char* Ty, const NameTab<U>(&tab)[N], U stdu, int mode, uint64_t seed, int per){
  for(size_t i=0;i<N;i++) for(size_t j=0;j<N;j++){
    bool touches_std = tab[i].v==stdu || tab[j].v==stdu;
    if(mode==0 && !touches_std && i!=j){ // quick: seeded sample of the other ordered pairs
      uint64_t h = seed*0x9E3779B97F4A7C15ULL ^ (i*1315423911ULL + j*2654435761ULL + (uint64_t)Ty[0]*97); h ^= h>>29; h*=0xBF58476D1CE4E5B9ULL; h^=h>>32;
      if(h %% 100 >= (uint64_t)(N>12? 6 : 25)) continue; }
    auto ia = MAGS.find(std::string(Ty)+"/"+tab[i].n), ib = MAGS.find(std::string(Ty)+"/"+tab[j].n);
    if(ia==MAGS.end()||ib==MAGS.end()) continue;
    const Mag& A=ia->second; const Mag& B=ib->second; bool affine=A.has_off||B.has_off;
    Acc acc; Q la=log2q(A.mag), lr=log2q(A.mag/B.mag);
    std::vector<T> vs = values<T>(seed+i*131+j, la, lr, affine, per);
    std::vector<T> ys;
    for(T x: vs){ T y = Convert(x, tab[i].v, tab[j].v); ys.push_back(y); score(acc,x,y,A,B);
      if(!affine){ T z = Convert(-x, tab[i].v, tab[j].v); if(!(z==-y)) acc.sym=0; } }
    runtime_sequences<U,T>(acc, vs, ys, tab[i].v, tab[j].v);
    emit<T>(Ty, tab[i].n, tab[j].n, "run", affine, acc, 0);
  }
}
template<class U, U a, U b, class T, bool SEQ> static void static_pair(const char* Ty, const char* an, const char* bn, uint64_t seed, int per){
  auto ia = MAGS.find(std::string(Ty)+"/"+an), ib = MAGS.find(std::string(Ty)+"/"+bn);
  if(ia==MAGS.end()||ib==MAGS.end()) return;
  const Mag& A=ia->second; const Mag& B=ib->second; bool affine=A.has_off||B.has_off;
  Acc acc; Q la=log2q(A.mag), lr=log2q(A.mag/B.mag); double vs_rt=0;
  std::vector<T> vs = values<T>(seed, la, lr, affine, per);
  std::vector<T> ys;
  for(T x: vs){ T y = ConvertStatically<U,a,b,T>(x); ys.push_back(y); score(acc,x,y,A,B);
    T r = Convert(x,a,b); double d = ulps_between(y,r); if(d>vs_rt) vs_rt=d;
    if(!affine){ T z = ConvertStatically<U,a,b,T>(-x); if(!(z==-y)) acc.sym=0; } }
  if constexpr (SEQ) static_sequences<U,a,b,T>(acc, vs, ys); else { acc.seq_n = -1; }
  emit<T>(Ty, an, bn, "static", affine, acc, vs_rt);
}
'''


def sources(units, thorough=False, nparts=12):
    parts = []
    for k in range(nparts):
        us = units[k::nparts]
        if not us:
            continue
        inc = sorted(set('#include "PhQ/Unit/%s"' % u['header'] for u in us))
        out = [PRE % {'includes': '\n'.join(inc)}]
        for u in us:
            T = u['type']
            out.append('static const NameTab<Unit::%s> TAB_%s[] = {%s};' % (
                T, T, ','.join('{Unit::%s::%s,"%s"}' % (T, n, n) for n in u['names'])))
        out.append('template<class T> static void part_T_%d(int mode, uint64_t seed, int per){' % k)
        for u in us:
            T = u['type']
            out.append('  runtime_pairs<Unit::%s,T>("%s", TAB_%s, Standard<Unit::%s>, mode, seed, per);' % (T, T, T, T))
            names = u['names']
            n = len(names)
            pairs = set()
            std = u.get('std_scanned') or names[0]
            for i, a in enumerate(names):
                pairs.add((a, std))
                pairs.add((std, a))
                pairs.add((a, names[(i + 1) % n]))
            seqpairs = set(pairs)        # the sequence overloads are instantiated for these (every unit to / from standard and to its successor)
            if thorough:
                pairs = {(a, b) for a in names for b in names}
            for a, b in sorted(pairs):
                out.append('  static_pair<Unit::%s, Unit::%s::%s, Unit::%s::%s, T, %s>("%s","%s","%s",seed,per);' % (T, T, a, T, b, 'true' if (a, b) in seqpairs else 'false', T, a, b))
        out.append('}')
        out.append('void cpart_%d(int mode, uint64_t seed, int per, const char* mags){ load_mags(mags); part_T_%d<float>(mode,seed,per); part_T_%d<double>(mode,seed,per); part_T_%d<long double>(mode,seed,per); }' % (k, k, k, k))
        parts.append(('conv_part%d%s.cpp' % (k, 't' if thorough else 'q'), '\n'.join(out) + '\n'))
    m = ['#include <cstdint>', '#include <cstdlib>', '#include <cstdio>']
    ks = [int(p[0].split('part')[1].rstrip('tq.cpp')) for p in parts]
    m += ['void cpart_%d(int, uint64_t, int, const char*);' % k for k in ks]
    m.append('int main(int argc, char** argv){ if(argc<5){ fprintf(stderr,"usage: conv mags mode seed per [part]\\n"); return 2; }')
    m.append('  int mode=atoi(argv[2]); uint64_t seed=strtoull(argv[3],0,10); int per=atoi(argv[4]); int only = argc>5? atoi(argv[5]) : -1;')
    m += ['  if(only<0||only==%d) cpart_%d(mode, seed, per, argv[1]);' % (k, k) for k in ks]
    m.append('  return 0; }')
    parts.append(('conv_main.cpp', '\n'.join(m) + '\n'))
    return parts, ks
