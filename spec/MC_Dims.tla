------------------------------- MODULE MC_Dims -------------------------------
(* Small-scope model check of Dims.tla itself, so that the oracle is not vacuous: over all        *)
(* 7-tuples with exponents in -1..1 (reached by single-exponent steps from zero) the order is a   *)
(* strict total order and its equivalence is equality; printing lists exactly the non-zero       *)
(* exponents in increasing index order.                                                           *)
EXTENDS Dims, TLC, FiniteSets
CONSTANTS MaxA, MaxB, MaxC
VARIABLES a, b, c
Box == -1..1
Init == a = DZero /\ b = DZero /\ c = DZero
Step(x, x2) == \E i \in 1..NDim, v \in Box : x2 = [x EXCEPT ![i] = v]
Next == \/ Step(a, a') /\ UNCHANGED <<b, c>>
        \/ Step(b, b') /\ UNCHANGED <<a, c>>
        \/ Step(c, c') /\ UNCHANGED <<a, b>>
Spec == Init /\ [][Next]_<<a, b, c>>
Trichotomy  == (IF DLess(a, b) THEN 1 ELSE 0) + (IF DLess(b, a) THEN 1 ELSE 0) + (IF a = b THEN 1 ELSE 0) = 1
Transitive  == DLess(a, b) /\ DLess(b, c) => DLess(a, c)
Irreflexive == ~DLess(a, a)
PrintSound  == LET t == PrintTokens(a) IN
                 /\ \A i \in 1..Len(t) : a[t[i][1]] = t[i][2] /\ t[i][2] # 0
                 /\ \A i \in 1..Len(t) - 1 : t[i][1] < t[i + 1][1]
                 /\ Len(t) = Cardinality({i \in 1..NDim : a[i] # 0})
                 /\ (t = <<>>) = PrintsAsOne(a)
Derived     == LET k == DCompare(a, b) IN k.le = (k.lt \/ k.eq) /\ k.ge = (k.gt \/ k.eq) /\ k.ne = ~k.eq
(* scope: a ranges over the whole box, b and c over tuples that differ from zero in <= 2 slots *)
NonZero(x)  == Cardinality({i \in 1..NDim : x[i] # 0})
Scope == NonZero(a) <= MaxA /\ NonZero(b) <= MaxB /\ NonZero(c) <= MaxC
=============================================================================
