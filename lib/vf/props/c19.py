"""C19 — quantities work during static initialisation."""
import concurrent.futures as cf
import json
import os
import subprocess
import sys

from .. import common as C

sys.path.insert(0, os.path.join(C.VERIF, 'extract'))
sys.path.insert(0, C.HARNESS)
import scan            # noqa: E402
import gen_staticinit  # noqa: E402
import gen_premain     # noqa: E402

READS = {'construct_std': [], 'construct_nonstd': ['MapOfConversionsToStandard'], 'value_in': ['MapOfConversionsFromStandard'],
         'print': ['Abbreviations'], 'parse': ['Spellings', 'Abbreviations'], 'consistent': ['ConsistentUnits'], 'related': ['RelatedUnitSystems']}
TABLES = ['Abbreviations', 'Spellings', 'ConsistentUnits', 'RelatedUnitSystems', 'MapOfConversionsFromStandard', 'MapOfConversionsToStandard']


def run(tier):
    chk = C.Check('C19', tier)
    us = scan.scan_units()
    kinds = {u['type']: {t: u['kinds'].get(t, 'unordered') for t in TABLES} for u in us}
    wd = C.work_dir('c19')
    # ---- Layer A: every schedule of two translation units under each policy, per distinct kind signature
    sigs = {}
    for t, k in kinds.items():
        sigs.setdefault(json.dumps(k, sort_keys=True), []).append(t)
    model = {}
    for i, (sig, types) in enumerate(sorted(sigs.items())):
        for pol in ('GCC', 'Clang', 'Standard'):
            cfgp = os.path.join(wd, f'sicfg_{i}_{pol}.json')
            json.dump({'kind': json.loads(sig), 'reads': READS, 'policy': pol}, open(cfgp, 'w'))
            res = C.run_tlc('MC_StaticInit', 'MC_StaticInit.cfg', env={'SICFG': cfgp}, workers=4, timeout=900)
            chk.add_tlc(f'MC_StaticInit policy={pol} signature#{i} ({len(types)} unit types)', res)
            if res.violated not in (None, 'NoReadBeforeInit'):
                raise C.ToolError('MC_StaticInit: ' + res.out[-1500:])
            faults = sorted(set(__import__('re').findall(r'<<"(\w+)@tu\d", "(\w+)">>', res.out))) if res.violated else []
            model[(i, pol)] = {'holds': res.violated is None, 'faults': faults, 'types': types}
    # ---- discovery: any other variable template with unordered dynamic initialisation that library code refers to
    vts = scan.scan_variable_templates()
    extra_unordered = sorted(n for n, k in vts.items() if 'unordered' in k and n not in TABLES and n != 'operator')
    extra_unordered += scan.scan_template_static_members()
    # ---- Conformance: probes with both compilers at -O0 and -O2
    src = C.gen_file('staticinit_probe.cpp', gen_staticinit.source(us))
    wsrc = C.gen_file('staticinit_witness.cpp', gen_staticinit.WITNESS)
    combos = [(c, o) for c in ('g++', 'clang++') for o in ('-O0', '-O2')]

    def build(co):
        c, o = co
        exe = C.compile_cxx(f'siprobe_{c}{o}', [src], flags=['-std=c++17', o, '-w'], compiler=c, timeout=3400)
        wexe = C.compile_cxx(f'siwitness_{c}{o}', [wsrc], flags=['-std=c++17', o, '-w'], compiler=c)
        return co, exe, wexe
    evs = []
    # quantity-level programs: one namespace-scope object per (quantity type, numeric type)
    qs = scan.scan_quantities()
    progs = [C.gen_file(n, t) for n, t in gen_premain.sources(qs, us)]

    def build_pm(job):
        (c, o), src_ = job
        return (c, o), C.compile_cxx(f'premain_{c}{o}', [src_], flags=['-std=c++17', o, '-w'], compiler=c, timeout=3400)
    with cf.ThreadPoolExecutor(C.NCPU) as ex:
        for (c, o), exe in ex.map(build_pm, [(co, p) for co in combos for p in progs]):
            r = subprocess.run([exe, c, o[1:]], stdout=subprocess.PIPE, stderr=subprocess.PIPE, timeout=600)
            lines = [json.loads(x) for x in r.stdout.decode(errors='replace').splitlines() if x.startswith('{')]
            evs += lines
            if r.returncode != 0:
                evs.append({'e': 'Witness', 'compiler': c, 'opt': o[1:], 'outcome': f'quantity-level program terminated with status {r.returncode} before or in main'})
    # the constitutive models before main() (g++ only: clang++ 14 cannot compile the model headers)
    for o in ('-O0', '-O2'):
        mexe = C.compile_cxx(f'premain_models_g++{o}', [os.path.join(C.HARNESS, 'premain_models.cpp')], flags=['-std=c++17', o, '-w'], compiler='g++', timeout=1200)
        r = subprocess.run([mexe, 'g++', o[1:]], stdout=subprocess.PIPE, stderr=subprocess.PIPE, timeout=600)
        evs += [json.loads(x) for x in r.stdout.decode(errors='replace').splitlines() if x.startswith('{')]
        if r.returncode != 0:
            evs.append({'e': 'Witness', 'compiler': 'g++', 'opt': o[1:], 'outcome': f'model-level program terminated with status {r.returncode} before or in main'})
    with cf.ThreadPoolExecutor(4) as ex:
        for (c, o), exe, wexe in ex.map(build, combos):
            r = subprocess.run([exe, c, o[1:]], stdout=subprocess.PIPE, stderr=subprocess.PIPE, timeout=600)
            if r.returncode != 0:
                evs.append({'e': 'Witness', 'compiler': c, 'opt': o[1:], 'outcome': f'probe binary died with status {r.returncode}'})
            evs += [json.loads(x) for x in r.stdout.decode().splitlines() if x.startswith('{')]
            w = subprocess.run([wexe], stdout=subprocess.PIPE, stderr=subprocess.PIPE, timeout=60)
            outcome = w.stdout.decode().strip().splitlines()[-1] if w.returncode == 0 and w.stdout.strip() else f'terminated with status {w.returncode} before main'
            evs.append({'e': 'Witness', 'compiler': c, 'opt': o[1:], 'outcome': outcome})
    tp = C.write_ndjson(os.path.join(wd, 'probes.ndjson'), evs)
    cfgp = os.path.join(wd, 'sicfg_trace.json')
    json.dump({'kinds': kinds, 'reads': READS}, open(cfgp, 'w'))
    outp = os.path.join(wd, 'si_bad.json')
    res = C.run_tlc('Trace_StaticInit', 'Trace_StaticInit.cfg', env={'TRACE': tp, 'SICFG': cfgp, 'OUT': outp}, workers=1, timeout=900)
    chk.add_tlc('Trace_StaticInit(probe executions vs policy models and the property)', res, traces=len(combos), events=len(evs))
    mismatch = 0
    if res.ok and os.path.exists(outp):
        j = json.load(open(outp))
        seen = set()
        for b in j['bad']:
            k = b['key']
            if b['cls'] == 'policy_model_mismatch':
                mismatch += 1
                chk.note_inconclusive(f"policy model mismatch: {k['compiler']} -{k['opt']} {k['facility']} {k['type']}<{k['num']}>")
                continue
            if b['cls'] == 'static_init_quantity':
                key = f"static_init_quantity:{k['compiler']}:{k['type']}"
                if key not in seen:
                    seen.add(key)
                    chk.violation(key, f"{k['compiler']} -{k['opt']}: a namespace-scope {k['type']}<{k['num']}> object computes before main() something else than main() does: {k['facility'][:300]}", b)
                continue
            if b['cls'] == 'static_init_witness':
                chk.violation(f"static_init_witness:{k['compiler']}", f"namespace-scope Length/Temperature objects built from a non-standard unit with {k['compiler']} -{k['opt']}: {k['facility']}", b)
                continue
            key = f"static_init:{k['compiler']}:{k['facility']}"
            if key not in seen:
                seen.add(key)
                chk.violation(key, f"{k['compiler']} -{k['opt']}: facility {k['facility']} used by a namespace-scope object finds its table unpopulated before main() (e.g. {k['type']}<{k['num']}>)", b)
    else:
        kx = res.distinct - 1
        chk.violation('staticinit_trace_rejected', f'Trace_StaticInit rejected event {kx}: {evs[kx] if kx < len(evs) else None}', evs[kx] if kx < len(evs) else None)
    # a schedule fault found by the model under a compiler's policy is a violation only where the probes confirm that policy model
    for (i, pol), m in model.items():
        if pol == 'Standard' or m['holds']:
            continue
        comp = 'g++' if pol == 'GCC' else 'clang++'
        confirmed = any(e.get('compiler') == comp and not e.get('populated', True) for e in evs if e['e'] == 'Probe')
        for fac, tab in m['faults']:
            if confirmed:
                chk.violation(f'static_init:{comp}:{fac}', f'StaticInit under the {pol} policy: a user object using {fac} can read {tab} before its initialisation (unit types: {m["types"][:3]}...)', m)
            else:
                chk.note_inconclusive(f'model fault under {pol} not confirmed by probes: {fac} reads {tab}')
    for n in extra_unordered:
        if not any(e['e'] == 'PreMain' and e['differ'] for e in evs):
            chk.note_inconclusive(f'variable template {n} has unordered dynamic initialisation (GCC initialises it after the user objects of a translation unit); no probe observed a difference')
    pm = [e for e in evs if e['e'] == 'PreMain']
    chk.layer('conformance.quantities', events=len(pm), programs=len(progs) * len(combos), other_unordered_variable_templates=extra_unordered)
    pr = [e for e in evs if e['e'] == 'Probe']
    chk.layer('A', kind_signatures=len(sigs), policies=['GCC', 'Clang', 'Standard'],
              model={f'{pol}#{i}': ('holds' if m['holds'] else m['faults']) for (i, pol), m in model.items()},
              note='Standard is information only: the property quantifies over the orders GCC and Clang produce')
    chk.layer('conformance', probe_events=len(pr), compilers_x_opt=len(combos), unit_types=len(us), numeric_types=3, facilities=6,
              policy_model_mismatches=mismatch, witness=[e for e in evs if e['e'] == 'Witness'])
    chk.count(evaluations=len(pr) + sum(e['fields'] for e in pm), distinct=len(pr) + len(pm))
    chk.cov['rule'] = 'model: all schedules of two translation units x 7 facilities per policy; probes: one namespace-scope object per (unit type, numeric type) per compiler and -O level, six facility results each compared with the same expression in main()'
    for e in pr[:2] + [e for e in evs if e['e'] == 'Witness'][:2]:
        chk.sample(e)
    chk.assumptions += ['probe objects read whether a not yet constructed std::map is empty (zero-initialised storage): formally unspecified, reliable on both compilers',
                        'clang++ probes exclude the constitutive-model headers (clang++ 14 cannot compile them)']
    return chk.finish()
