"""C18 — named physical definitions evaluate their textbook formulas."""
from .. import common as C, relfacts as RF


def run(tier):
    chk = C.Check('C18', tier)
    out = RF.run(n=40 if tier == 'quick' else 400)
    RF.report(chk, 'C18', out)
    byid = {r['id']: r for r in out['rels']}
    defs = out['defs']
    td = [e for e in out['facts'] if e['e'] == 'TensorDef']
    mr = [e for e in out['facts'] if e['e'] == 'MonoReal']
    tr = [e for e in out['facts'] if e['e'] == 'TensorDefReal']
    defined = {d['rel'] for d in defs if d['rel'] >= 0}
    sv = [e for e in out['facts'] if e['e'] == 'Solved']
    chk.layer('A', scalar_definitions=len(defs), present=len(defined), solved_forms_checked=len(sv), tensor_definition_events=len(td),
              tensor_definition_relations=len({e['rel'] for e in td}),
              note='scalar definitions: measured fingerprint (degrees and constant) must equal the textbook monomial / linear form of Definitions.tla; tensor definitions '
                   '(sym grad u, (beta dT/3) I, von Mises, sigma.n, -p I) recomputed by TLC on integer tensors')
    chk.layer('B', monomial_relations_checked=len({e['id'] for e in mr}), of_which_named_definitions=len({e['id'] for e in mr if e['id'] in defined}),
              worst_ulps=max([e['ulps'] for e in mr] or [0]), tensor_real_events=len(tr), worst_tensor_ulps=max([e['ulps'] for e in tr] or [0]),
              note='every all-scalar monomial relation (the named definitions among them) against c * prod x^p in __float128, three numeric types, random positive inputs over 40 binades; budget 4 ulps (8 with a square root)')
    th = [e for e in out['facts'] if e['e'] == 'Theory']
    chk.add_tlc('MC_Theory(theory states are models of every definition)', out['theory_tlc'])
    chk.layer('T', theory_relations=out['theory_relations'], theory_events=len(th), states=len({e['state'] for e in th}), worst_ulps=max([e['ulps'] for e in th] or [0]),
              note='derived forms (Theory.tla): three states of a fluid at a point that TLC shows to satisfy all 18 scalar fluid definitions and 6 auxiliary ones exactly; every relation of the '
                   'graph among pairwise distinct variables of the theory (R(gamma, cv), cp(gamma, R), mu from Re, ...) evaluated at each state in each numeric type must return the '
                   "state's value of its result type (snapped to the nearest small rational, within 8 ulps); coverage of all such relations is checked by the trace spec")
    chk.count(evaluations=len(th) + sum(e['n'] for e in mr) + sum(e['n'] for e in tr) + len(td) + len(defs) + len(sv), distinct=len(th) + len(defs) + len(sv) + len(td) + len(mr) + len(tr))
    chk.cov['rule'] = 'one Def fact per named definition (23 scalar) + 14 tensor-definition relations x 3 numeric types x 3 integer cases; numeric events per (relation, numeric type)'
    for d in defs[:3]:
        chk.sample({'definition': d['def'], 'relation': byid[d['rel']]['name'] if d['rel'] >= 0 else None,
                    'fingerprint': {k: v for k, v in out['fps'][d['rel']].items() if k != 'c'} if d['rel'] >= 0 else None})
    for e in td[:2] + mr[:1] + tr[:1] + th[:1]:
        chk.sample(e)
    chk.assumptions += ['the table of definitions (spec/Definitions.tla) is hand-written from the formulas named in the property; a definition missing from the tree is a violation',
                        'constants of scalar monomials are recognised as square roots of small rationals (c^2 with denominator <= 4096)']
    return chk.finish()
