"""C14 — comparison is a total order on stored values; equal objects hash equally."""
from .. import common as C, battery as B


def run(tier):
    chk = C.Check('C14', tier)
    mc = C.run_tlc('MC_Order', 'MC_Order.cfg', workers=4, timeout=600)
    chk.add_tlc('MC_Order(lexicographic order is a strict total order; operators consistent; recursive = first-difference form; lengths 1..4)', mc)
    if not mc.ok:
        raise C.ToolError('MC_Order failed\n' + mc.out[-2000:])
    nob = C.run_tlaps('Order_proofs')
    chk.layer('S.proofs', tlaps_obligations_proved=nob,
              note='Order_proofs.tla: the first-difference order (equal to the recursive LexLess on the MC_Order scope) is irreflexive, asymmetric, '
                   'transitive and total, == is substitutive for it, and the six derived operators are consistent — for every length and ALL integer ranks (tlapm: SMT, Isabelle for the induction)')
    exe, qs, ks = B.build()
    wd = C.work_dir('c14')
    evs = B.run_modes(exe, ks, ['compare'], n=4000 if tier == 'quick' else 200000)
    from .. import models as M
    mout = M.compare_events(tier)
    M.report(chk, 'Trace_Models(comparison and hash of the three model classes)', mout, {'model_order'})
    chk.layer('A.models', events=len(mout['events']), note='pairs of models whose two stored values tie in the first (also via -0/+0)')
    res, result = B.validate(evs, qs, wd, 'c14')
    B.report(chk, 'Trace_Battery(comparison and hash events)', evs, res, result, {'order', 'order_summary'})
    sm = [e for e in evs if e['e'] == 'CmpSummary']
    cm = [e for e in evs if e['e'] == 'Cmp']
    chk.layer('A', types=len({e['type'] for e in sm}), type_x_numeric_type=len(sm), pairs_compared_natively=sum(e['pairs'] for e in sm),
              events_validated_by_tlc=len(cm), tie_events=(result or {}).get('cmpties'),
              note='pairs tie in a random-length leading prefix (also via -0/+0) and then differ by one rank step or randomly; values from '
                   '{-inf,-2,-1,-0,+0,1,2,+inf}; all six operators and hash equality against the lexicographic reference; std::set / '
                   'std::unordered_set of 60 objects must hold exactly the distinct keys and find every object again')
    chk.count(evaluations=sum(e['pairs'] for e in sm), distinct=len(cm) + len(sm))
    chk.cov['rule'] = ('per (type, numeric type): random pairs from the tie-forcing grid, every disagreement with the reference and a seeded sample are '
                       'emitted as events; TLC recomputes the lexicographic order and the six derived operators on order ranks')
    for e in cm[:3] + sm[:1]:
        chk.sample(e)
    chk.assumptions += ['Direction and PlanarDirection are compared on objects built from small-integer vectors (finite values only); Dimensions is covered by C06']
    return chk.finish()
