"""C12 — an elastic isotropic solid is the same material from any modulus pair."""
from .. import common as C, models as M

CLASSES = {'elastic_ctor', 'elastic_stress', 'elastic_strain', 'model_stub', 'elastic_rebuild', 'model_inverse_composition', 'elastic_map_real'}


def run(tier):
    chk = C.Check('C12', tier)
    mc = C.run_tlc('MC_Elastic', 'MC_Elastic.cfg', workers=8, timeout=900)
    chk.add_tlc('MC_Elastic(the relational constructor specification is well posed: each of the 20 supported pairs determines the admissible state, except lambda = nu = 0)', mc)
    if not mc.ok:
        raise C.ToolError('MC_Elastic failed\n' + mc.out[-2000:])
    nob = C.run_tlaps('Elastic_proofs', deps=('Elastic',))
    chk.layer('S.proofs', tlaps_obligations_proved=nob, note='Elastic_proofs.tla: uniqueness of the admissible state for the seven modulus pairs with linear defining relations, for ALL integers (tlapm, SMT); '
              'all twenty pairs exhaustively on mu in 1..12, lambda in 0..12, Poisson-ratio scale 1 and 10 by MC_Elastic')
    out = M.run(['exact', 'real'], 2000 if tier == 'quick' else 60000)
    # fluid events ride along in the same trace; only elastic classes are reported here
    out2 = dict(out)
    M.report(chk, 'Trace_Models(elastic: dyadic material family, integer tensors, rebuilds)', out2, CLASSES)
    if out['result']:
        out['result']['bad'] = [b for b in out['result']['bad'] if not (b['cls'] in ('model_stub', 'model_inverse_composition') and 'elastic' not in b['key'])]
    evs = out['events']
    ct = [e for e in evs if e['e'] == 'ElasticCtor']
    st = [e for e in evs if e['e'] in ('ElasticStress', 'ElasticStrain')]
    rb = [e for e in evs if e['e'] == 'ElasticRebuild']
    if out['result'] and out['result']['ctor_pairs_missing']:
        chk.note_inconclusive(f"{out['result']['ctor_pairs_missing']} (constructor pair, numeric type) combinations not exercised")
    chk.layer('A', constructor_events=len(ct), constructors=20, accessors=7, stress_strain_events=len(st),
              overload_combinations=(out['result'] or {}).get('overloads'),
              note='dyadic material family mu = 3a, lambda + mu = 2^k: all seven moduli are dyadic, inputs exact in float; TLC checks the relational constructor '
                   'specification on the snapped state and each accessor identity by cross-multiplication; stress/strain on integer tensors through 3 overloads x direct / abstract interface x 3 model types')
    chk.layer('B', rebuild_events=len(rb), materials_per_pair=rb[0]['n'] if rb else 0, worst_err_eps_kappa=max([e['err_eps_kappa'] for e in rb] or [0]), budget=256,
              note='nu in [0.05, 0.45], mu over 60 binades; errors against max(mu,|lambda|), divided by kappa = 1/(1-2nu)')
    mr = [e for e in evs if e['e'] == 'MapReal' and e['model'] == 'elastic']
    chk.layer('B.maps', events=len(mr), worst_ulps=max([e['ulps'] for e in mr] or [0]), budget=8,
              note='stress and strain maps x 3 model numeric types x 3 overload numeric types x direct / abstract interface on real tensors and moduli with full mantissas, against '
                   '2 mu eps + lambda tr(eps) I and its inverse in __float128, in ulps of the overload type')
    chk.count(evaluations=len(ct) + len(st) + sum(e['n'] for e in mr) + sum(e['n'] for e in rb), distinct=len(ct) + len(st) + len(rb))
    chk.cov['rule'] = 'exact: 12 dyadic materials x 20 constructors x 3 numeric types; maps: 5 integer materials x 3 tensors x 3 overloads x 2 call paths x 3 model types; numeric: random admissible materials per pair'
    for e in ct[:2] + st[:2] + rb[:1]:
        chk.sample(e)
    chk.assumptions += ['g++ only: clang++ 14 rejects the ConstitutiveModel headers (default template argument redefinition)',
                        'nu = 0 exactly is exercised only through the numeric layer bounds (nu >= 0.05)']
    return chk.finish()
