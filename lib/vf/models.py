"""Constitutive-model harness (C12, C13, model part of C14): build, run, validate with Trace_Models."""
import json
import os

from . import common as C


def build():
    return C.compile_cxx('models', [os.path.join(C.HARNESS, 'models.cpp')], flags=['-std=c++17', '-O1', '-fno-fast-math', '-ffp-contract=off', '-w'], libs=['-lquadmath'])


def run(modes, n):
    exe = build()
    wd = C.work_dir('models')
    tp = os.path.join(wd, 'models.ndjson')
    with open(tp, 'wb') as f:
        for m in modes:
            f.write(C.run([exe, m, str(C.SEED), str(n)], timeout=1700).stdout)
    evs = [json.loads(x) for x in open(tp)]
    outp = os.path.join(wd, 'models_bad.json')
    res = C.run_tlc('Trace_Models', 'Trace_Models.cfg', env={'TRACE': tp, 'OUT': outp}, workers=1, timeout=900)
    ok = res.ok and os.path.exists(outp)
    return {'events': evs, 'tlc': res, 'result': json.load(open(outp)) if ok else None}


def report(chk, name, out, classes):
    evs, res = out['events'], out['tlc']
    chk.add_tlc(name, res, traces=1, events=len(evs))
    if out['result'] is None:
        k = res.distinct - 1
        chk.violation('models_trace_rejected', f'Trace_Models rejected event {k}: {evs[k] if k < len(evs) else None}', evs[k] if k < len(evs) else None)
        return
    for b in out['result']['bad']:
        if b['cls'].startswith('extra_'):
            chk.beyond(f"{b['key']} ({b['num']}): GetType / printed / serialised form of the model is not composed of its type label and its parameters' own forms: {str(b['detail'])[:200]}")
            continue
        if b['cls'] in classes:
            chk.violation(f"{b['cls']}:{b['key']}:{b['num']}", f"{b['cls']} {b['key']} num={b['num']} {b['detail']}", b)


def compare_events(tier):
    """used by C14"""
    return run(['cmp'], 300 if tier == 'quick' else 5000)
