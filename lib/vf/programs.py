"""K2 across types: TLC-simulated programs over the extracted relation graph (spec/Programs.tla), replayed step by step
through the relations evaluator in the three numeric types with exact state comparison."""
import json
import os
import sys

from . import common as C, relfacts as RF, relations as R, battery as B

sys.path.insert(0, C.HARNESS)
import qgen  # noqa: E402


def pgraph(rels, g, twins):
    qs = g['qs']
    bad = set(qgen.NORMALISED)
    ops, ncomp, partners = {}, {'Number': 1}, {}
    for n, q in qs.items():
        if n not in bad:
            ncomp[n] = qgen.NCOMP[q['shape']]
    byid = {r['id']: r for r in rels}
    relid = {}
    for r in rels:
        if r['kind'] == 'op' and not (set(r['args']) | {r['ret']}) & bad:
            a, b = r['args']
            ops[f"{a}|{r['op']}|{b}"] = r['ret']
            relid[('op', a, r['op'], b)] = r['id']
            partners.setdefault(a, set()).add(b)
            partners.setdefault(b, set()).add(a)
    tw = {}
    for t in twins:
        o, c = byid[t['op']], byid[t['ctor']]
        if (set(c['args']) | {c['ret']}) & bad:
            continue
        tw[f"{c['ret']}|{c['args'][0]}|{c['args'][1]}"] = {'op': o['op'], 'swap': t['perm']}
        relid[('ctor', c['ret'], c['args'][0], c['args'][1])] = c['id']
    for t in ncomp:
        partners.setdefault(t, set())
    pats = {str(n): v for n, v in B.PATTERNS.items()}
    return ({'ops': ops, 'ncomp': ncomp, 'partners': {k: sorted(v) for k, v in partners.items()}, 'twins': tw, 'patterns': pats}, relid)


def run(out, num_behaviours, wd):
    """out: result of relfacts.run() (graph, relations, evaluator binary)."""
    G, relid = pgraph(out['rels'], out['graph'], out['twins'])
    gp = os.path.join(wd, 'pgraph.json')
    json.dump(G, open(gp, 'w'))
    res = C.run_tlc('Programs', 'Sim_Programs.cfg', env={'PGRAPH': gp}, workers=4, simulate=max(1, num_behaviours // 4), depth=11, timeout=1200,
                    extra=['-seed', str(C.SEED % 100000 + 17)], heap='8g')
    bs = B.parse_behaviours(res.out)
    q, meta = [], []
    for bi, b in enumerate(bs):
        prev = {r: {'q': '', 'v': []} for r in ('r1', 'r2', 'r3')}
        for si, s in enumerate(b):
            st = s['st']
            if s['act'] in ('BinOp', 'Ctor'):
                A, Bq = prev[s['a']], prev[s['b']]
                rid = relid.get(('op', A['q'], s['op'], Bq['q'])) if s['act'] == 'BinOp' else relid.get(('ctor', s['q'], A['q'], Bq['q']))
                for num in 'fdl':
                    q.append((rid, num, [float(x) for x in A['v']] + [0.0] * (9 - len(A['v'])) + [float(x) for x in Bq['v']]))
                    meta.append((bi, si, num, s, A, Bq, st[s['dst']]['v'], rid))
            prev = st
    ev = R.Evaluator(out['exe'])
    try:
        resv = ev.batch(q) if q else []
    finally:
        ev.close()
    mismatches = []
    used = set()
    for (bi, si, num, s, A, Bq, want, rid), got in zip(meta, resv):
        used.add(rid)
        if got is None or [float(x) for x in want] != got:
            mismatches.append({'behaviour': bi, 'step': si, 'num': num, 'act': s['act'], 'op': s['op'], 'result_type': s['q'], 'a': A, 'b': Bq, 'spec': want, 'impl': got})
    return {'tlc': res, 'behaviours': len(bs), 'steps': sum(len(b) for b in bs), 'relation_steps': len(meta), 'distinct_relations': len(used),
            'mismatches': mismatches, 'sample': [{k: v for k, v in s.items() if k != 'st'} for s in bs[0]] if bs else []}
