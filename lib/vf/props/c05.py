"""C05 — relations that undo each other really are mutual inverses."""
from .. import common as C, relfacts as RF


def run(tier):
    chk = C.Check('C05', tier)
    out = RF.run(n=40 if tier == 'quick' else 400)
    RF.report(chk, 'C05', out)
    st = (out['result'] or {}).get('stat', {})
    inv = [e for e in out['facts'] if e['e'] == 'Inverse']
    byid = {r['id']: r for r in out['rels']}
    chk.layer('A', inverse_pairs=len(out['pairs']), decided_on_fingerprints=st.get('pairs_decided'),
              note='pairs derived from signatures (constructors, members) and signature + operator duality (operators); composition of the '
                   'two fingerprints must be the identity monomial / linear form, constants included')
    chk.layer('B', round_trip_events=len(inv), inputs_per_pair_and_type=inv[0]['n'] if inv else 0,
              worst_ulps=max([e['ulps'] for e in inv] or [0]), budget_ulps='4 (8 with a square root; x8 for the rational heat-capacity-ratio forms)')
    chk.count(evaluations=sum(e['n'] for e in inv) + len(out['pairs']), distinct=len(out['pairs']) + len(inv))
    chk.cov['rule'] = ('every ordered pair (forward relation, position of A, back relation) whose signatures are inverse; numeric layer: random '
                       'positive inputs over ~60 binades per pair and numeric type, A -> C -> A compared in ulps of A (of the largest term for sums)')
    chk.cov['exhaustive'] = True
    for p in out['pairs'][:4]:
        chk.sample({'forward': byid[p['fwd']]['name'], 'back': byid[p['back']]['name'], 'posA': p['posA'], 'posC': p['posC']})
    chk.sample(inv[0] if inv else {})
    chk.assumptions += ['pairs between an operator and a constructor are covered through the twin check of C04 rather than paired directly',
                        'heat-capacity-ratio forms are exercised on admissible thermodynamic states (gamma in [1.25, 1.75])']
    return chk.finish()
