SPECIFICATION Spec
CONSTANTS TUs = {"tu1", "tu2"}  Tables <- TablesC  Kind <- KindC  Objects <- ObjectsC  TUOf <- TUOfC  Reads <- ReadsC  Policy <- PolicyC
INVARIANTS TypeOK NoReadBeforeInit
CHECK_DEADLOCK FALSE
