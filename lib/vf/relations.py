"""The `relations` evaluator harness: build, query, and fingerprint every relation of the graph."""
import json
import os
import subprocess
import sys

from . import common as C, relgraph as G

sys.path.insert(0, C.HARNESS)
import gen_relations  # noqa: E402


def build():
    """-> (exe, graph, relations, uninstantiable).  A relation whose *body* does not compile for some numeric
    type (SFINAE detection sees declarations only) is excluded, recorded, and the build repeated (DESIGN 7.3)."""
    import re
    g = G.graph()
    blk = os.path.join(C.cache_dir('facts'), 'uninstantiable.json')
    excluded = json.load(open(blk)) if os.path.exists(blk) else []
    for attempt in range(4):
        parts, rels = gen_relations.sources(g, exclude=set(excluded))
        srcs = [C.gen_file(n, t) for n, t in parts]
        r = C.compile_cxx('relations', srcs, flags=['-std=c++17', '-O1', '-fno-fast-math', '-ffp-contract=off', '-w'], libs=['-lquadmath'],
                          timeout=3400, allow_fail=True)
        if isinstance(r, str):
            json.dump(excluded, open(blk, 'w'))
            return r, g, rels, excluded
        ids = sorted({int(x) for x in re.findall(r"required from .int rel_(\d+)\(", r[1])})
        names = {x['id']: x['name'] for x in gen_relations.relation_table(g)}
        new = [names[i] for i in ids if names[i] not in excluded]
        if not new:
            raise C.ToolError('relations harness does not build:\n' + r[1][-3000:])
        C.log('[relations] excluded (body does not instantiate):', new)
        excluded += new
    raise C.ToolError('relations harness: too many uninstantiable relations')


class Evaluator:
    """Line protocol over a pipe to `relations eval`."""

    def __init__(self, exe):
        self.p = subprocess.Popen([exe, 'eval'], stdin=subprocess.PIPE, stdout=subprocess.PIPE, text=True, bufsize=1 << 20)

    def batch(self, queries, chunk=100, raw=False):
        """queries: list of (id, num, [values as float or str]) -> list of result lists (python floats via hex).
        Written in chunks so that neither pipe can fill up while the other side is blocked."""
        out = []
        for i in range(0, len(queries), chunk):
            qs = queries[i:i + chunk]
            lines = []
            for rid, num, vals in qs:
                vals = list(vals)
                while vals and vals[-1] == 0:
                    vals.pop()
                lines.append(f'{rid} {num} ' + ' '.join(v if isinstance(v, str) else float(v).hex() for v in vals))
            self.p.stdin.write('\n'.join(lines) + '\n')
            self.p.stdin.flush()
            for _ in qs:
                parts = self.p.stdout.readline().split()
                n = int(parts[1])
                out.append(None if n < 0 else [(x if raw else hexf(x)) for x in parts[2:2 + n]])
        return out

    def close(self):
        try:
            self.p.stdin.close()
            self.p.wait(timeout=10)
        except Exception:
            self.p.kill()


def hexf(s):
    s = s.strip()
    if s in ('inf', '-inf', 'nan', '-nan'):
        return float(s.replace('-nan', 'nan'))
    return float.fromhex(s)
