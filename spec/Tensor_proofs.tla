--------------------------- MODULE Tensor_proofs ---------------------------
(* C09, unbounded part: textbook identities of the index-notation specification (Tensor.tla) that *)
(* MC_Tensor checks on components from {-1,0,1} hold for ALL integer components.  The polynomial   *)
(* identities are proved as scalar lemmas by the SMT back end and lifted to the vector operators.  *)
EXTENDS Tensor, TLAPS
V3 == [1..3 -> Int]

LEMMA POrtho == \A a1, a2, a3, b1, b2, b3 \in Int :
                   /\ a1 * (a2 * b3 - a3 * b2) + a2 * (a3 * b1 - a1 * b3) + a3 * (a1 * b2 - a2 * b1) = 0
                   /\ b1 * (a2 * b3 - a3 * b2) + b2 * (a3 * b1 - a1 * b3) + b3 * (a1 * b2 - a2 * b1) = 0
  OBVIOUS
LEMMA PLagrange == \A a1, a2, a3, b1, b2, b3 \in Int :
                     (a2 * b3 - a3 * b2) * (a2 * b3 - a3 * b2) + (a3 * b1 - a1 * b3) * (a3 * b1 - a1 * b3) + (a1 * b2 - a2 * b1) * (a1 * b2 - a2 * b1)
                     = (a1 * a1 + a2 * a2 + a3 * a3) * (b1 * b1 + b2 * b2 + b3 * b3) - (a1 * b1 + a2 * b2 + a3 * b3) * (a1 * b1 + a2 * b2 + a3 * b3)
  OBVIOUS
LEMMA PTriple == \A a1, a2, a3, b1, b2, b3, c1, c2, c3 \in Int :
                   a1 * (b2 * c3 - b3 * c2) + a2 * (b3 * c1 - b1 * c3) + a3 * (b1 * c2 - b2 * c1)
                   = b1 * (c2 * a3 - c3 * a2) + b2 * (c3 * a1 - c1 * a3) + b3 * (c1 * a2 - c2 * a1)
  OBVIOUS

LEMMA Comp == \A u \in V3 : u[1] \in Int /\ u[2] \in Int /\ u[3] \in Int
  BY DEF V3
LEMMA CrossComp == \A u, v \in V3 : /\ Cross(u, v)[1] = u[2] * v[3] - u[3] * v[2]
                                    /\ Cross(u, v)[2] = u[3] * v[1] - u[1] * v[3]
                                    /\ Cross(u, v)[3] = u[1] * v[2] - u[2] * v[1]
  BY DEF Cross

THEOREM CrossAntiAll == \A u, v \in V3 : \A i \in 1..3 : Cross(u, v)[i] = -Cross(v, u)[i]
  BY DEF V3, Cross
THEOREM DotSymAll == \A u, v \in V3 : Dot(u, v) = Dot(v, u)
  BY DEF V3, Dot
THEOREM CrossOrthoAll == \A u, v \in V3 : Dot(u, Cross(u, v)) = 0 /\ Dot(v, Cross(u, v)) = 0
<1> SUFFICES ASSUME NEW u \in V3, NEW v \in V3 PROVE Dot(u, Cross(u, v)) = 0 /\ Dot(v, Cross(u, v)) = 0
  OBVIOUS
<1> QED BY Comp, CrossComp, POrtho DEF Dot
THEOREM LagrangeAll == \A u, v \in V3 : Dot(Cross(u, v), Cross(u, v)) = Dot(u, u) * Dot(v, v) - Dot(u, v) * Dot(u, v)
<1> SUFFICES ASSUME NEW u \in V3, NEW v \in V3 PROVE Dot(Cross(u, v), Cross(u, v)) = Dot(u, u) * Dot(v, v) - Dot(u, v) * Dot(u, v)
  OBVIOUS
<1> QED BY Comp, CrossComp, PLagrange DEF Dot
THEOREM TripleCyclicAll == \A u, v, w \in V3 : Dot(u, Cross(v, w)) = Dot(v, Cross(w, u))
<1> SUFFICES ASSUME NEW u \in V3, NEW v \in V3, NEW w \in V3 PROVE Dot(u, Cross(v, w)) = Dot(v, Cross(w, u))
  OBVIOUS
<1> QED BY Comp, CrossComp, PTriple DEF Dot
THEOREM PlanarCrossAll == \A p, q \in [1..2 -> Int] : Cross(PlanarEmbed(p), PlanarEmbed(q)) = <<0, 0, PCrossZ(p, q)>> /\ Dot(PlanarEmbed(p), PlanarEmbed(q)) = PDot(p, q)
  BY DEF Cross, Dot, PlanarEmbed, PCrossZ, PDot

(* ---- dyads ---- *)
D9 == [1..9 -> Int]
LEMMA MkDyadAt == \A i, j \in 1..3 : DS(i, j) \in 1..9 /\ ((DS(i, j) - 1) \div 3) + 1 = i /\ ((DS(i, j) - 1) % 3) + 1 = j
  BY DEF DS
LEMMA TransposeAt == \A a \in D9 : \A i, j \in 1..3 : D(Transpose(a), i, j) = D(a, j, i)
  BY MkDyadAt DEF Transpose, MkDyad, D, D9
THEOREM TransposeInvolutive == \A a \in D9 : \A i, j \in 1..3 : D(Transpose(Transpose(a)), i, j) = D(a, i, j)
  BY MkDyadAt DEF Transpose, MkDyad, D, D9
THEOREM DyadicTraceAll == \A u, v \in V3 : Trace(Dyadic(u, v)) = Dot(u, v)
  BY MkDyadAt DEF Trace, Dyadic, MkDyad, D, Dot, V3, DS
THEOREM SymEmbedSymmetric == \A s \in [1..6 -> Int] : IsSymmetric(SymEmbed(s))
  BY MkDyadAt DEF IsSymmetric, SymEmbed, MkDyad, D, SS, Idx
THEOREM SymRoundTripAll == \A s \in [1..6 -> Int] : SymOfDyad(SymEmbed(s)) = <<s[1], s[2], s[3], s[4], s[5], s[6]>>
  BY MkDyadAt DEF SymOfDyad, SymEmbed, MkDyad, D, SS, DS

LEMMA NxPv == Nx(1) = 2 /\ Nx(2) = 3 /\ Nx(3) = 1 /\ Pv(1) = 3 /\ Pv(2) = 1 /\ Pv(3) = 2
  BY DEF Nx, Pv
LEMMA DetExplicit == \A a \in D9 : Det(a) = a[1] * (a[5] * a[9] - a[6] * a[8]) + a[2] * (a[6] * a[7] - a[4] * a[9]) + a[3] * (a[4] * a[8] - a[5] * a[7])
  BY NxPv DEF Det, Cof, D, DS, D9
LEMMA PDetT == \A a1, a2, a3, a4, a5, a6, a7, a8, a9 \in Int :
                 a1 * (a5 * a9 - a6 * a8) + a2 * (a6 * a7 - a4 * a9) + a3 * (a4 * a8 - a5 * a7)
                 = a1 * (a5 * a9 - a8 * a6) + a4 * (a8 * a3 - a2 * a9) + a7 * (a2 * a6 - a5 * a3)
  OBVIOUS
LEMMA Comp9 == \A a \in D9 : \A k \in 1..9 : a[k] \in Int
  BY DEF D9
LEMMA DivMod == /\ (0 \div 3) = 0 /\ (1 \div 3) = 0 /\ (2 \div 3) = 0 /\ (3 \div 3) = 1 /\ (4 \div 3) = 1 /\ (5 \div 3) = 1 /\ (6 \div 3) = 2 /\ (7 \div 3) = 2 /\ (8 \div 3) = 2
                /\ (0 % 3) = 0 /\ (1 % 3) = 1 /\ (2 % 3) = 2 /\ (3 % 3) = 0 /\ (4 % 3) = 1 /\ (5 % 3) = 2 /\ (6 % 3) = 0 /\ (7 % 3) = 1 /\ (8 % 3) = 2
  OBVIOUS
LEMMA TransposeSlots == \A a \in D9 : /\ Transpose(a) \in D9
                                       /\ Transpose(a)[1] = a[1] /\ Transpose(a)[2] = a[4] /\ Transpose(a)[3] = a[7]
                                       /\ Transpose(a)[4] = a[2] /\ Transpose(a)[5] = a[5] /\ Transpose(a)[6] = a[8]
                                       /\ Transpose(a)[7] = a[3] /\ Transpose(a)[8] = a[6] /\ Transpose(a)[9] = a[9]
<1> SUFFICES ASSUME NEW a \in D9 PROVE /\ Transpose(a) \in D9
                                       /\ Transpose(a)[1] = a[1] /\ Transpose(a)[2] = a[4] /\ Transpose(a)[3] = a[7]
                                       /\ Transpose(a)[4] = a[2] /\ Transpose(a)[5] = a[5] /\ Transpose(a)[6] = a[8]
                                       /\ Transpose(a)[7] = a[3] /\ Transpose(a)[8] = a[6] /\ Transpose(a)[9] = a[9]
  OBVIOUS
<1>0. Transpose(a) = [k \in 1..9 |-> a[3 * ((((k - 1) % 3) + 1) - 1) + (((k - 1) \div 3) + 1)]]
  BY DEF Transpose, MkDyad, D, DS
<1>1. Transpose(a)[1] = a[1] BY <1>0, DivMod
<1>2. Transpose(a)[2] = a[4] BY <1>0, DivMod
<1>3. Transpose(a)[3] = a[7] BY <1>0, DivMod
<1>4. Transpose(a)[4] = a[2] BY <1>0, DivMod
<1>5. Transpose(a)[5] = a[5] BY <1>0, DivMod
<1>6. Transpose(a)[6] = a[8] BY <1>0, DivMod
<1>7. Transpose(a)[7] = a[3] BY <1>0, DivMod
<1>8. Transpose(a)[8] = a[6] BY <1>0, DivMod
<1>9. Transpose(a)[9] = a[9] BY <1>0, DivMod
<1>10. Transpose(a) \in D9
  <2>1. \A k \in 1..9 : Transpose(a)[k] \in Int
    BY <1>1, <1>2, <1>3, <1>4, <1>5, <1>6, <1>7, <1>8, <1>9 DEF D9
  <2> QED BY <2>1, <1>0 DEF D9
<1> QED BY <1>1, <1>2, <1>3, <1>4, <1>5, <1>6, <1>7, <1>8, <1>9, <1>10
THEOREM DetTransposeAll == \A a \in D9 : Det(Transpose(a)) = Det(a)
<1> SUFFICES ASSUME NEW a \in D9 PROVE Det(Transpose(a)) = Det(a)
  OBVIOUS
<1> QED BY DetExplicit, TransposeSlots, Comp9, PDetT

(* ---- the adjugate law  A . adj(A) = adj(A) . A = det(A) I, the division-free statement of the inverse ---- *)
LEMMA TransposeSlotsAny == \A a : Transpose(a)[1] = a[1] /\ Transpose(a)[2] = a[4] /\ Transpose(a)[3] = a[7] /\ Transpose(a)[4] = a[2] /\ Transpose(a)[5] = a[5] /\ Transpose(a)[6] = a[8] /\ Transpose(a)[7] = a[3] /\ Transpose(a)[8] = a[6] /\ Transpose(a)[9] = a[9]
<1> SUFFICES ASSUME NEW a PROVE Transpose(a)[1] = a[1] /\ Transpose(a)[2] = a[4] /\ Transpose(a)[3] = a[7] /\ Transpose(a)[4] = a[2] /\ Transpose(a)[5] = a[5] /\ Transpose(a)[6] = a[8] /\ Transpose(a)[7] = a[3] /\ Transpose(a)[8] = a[6] /\ Transpose(a)[9] = a[9]
  OBVIOUS
<1>0. Transpose(a) = [k \in 1..9 |-> a[3 * ((((k - 1) % 3) + 1) - 1) + (((k - 1) \div 3) + 1)]]
  BY DEF Transpose, MkDyad, D, DS
<1>1. Transpose(a)[1] = a[1] BY <1>0, DivMod
<1>2. Transpose(a)[2] = a[4] BY <1>0, DivMod
<1>3. Transpose(a)[3] = a[7] BY <1>0, DivMod
<1>4. Transpose(a)[4] = a[2] BY <1>0, DivMod
<1>5. Transpose(a)[5] = a[5] BY <1>0, DivMod
<1>6. Transpose(a)[6] = a[8] BY <1>0, DivMod
<1>7. Transpose(a)[7] = a[3] BY <1>0, DivMod
<1>8. Transpose(a)[8] = a[6] BY <1>0, DivMod
<1>9. Transpose(a)[9] = a[9] BY <1>0, DivMod
<1> QED BY <1>1, <1>2, <1>3, <1>4, <1>5, <1>6, <1>7, <1>8, <1>9
LEMMA CofactorsSlots == \A a : Cofactors(a)[1] = (a[5] * a[9] - a[6] * a[8]) /\ Cofactors(a)[2] = (a[6] * a[7] - a[4] * a[9]) /\ Cofactors(a)[3] = (a[4] * a[8] - a[5] * a[7]) /\ Cofactors(a)[4] = (a[8] * a[3] - a[9] * a[2]) /\ Cofactors(a)[5] = (a[9] * a[1] - a[7] * a[3]) /\ Cofactors(a)[6] = (a[7] * a[2] - a[8] * a[1]) /\ Cofactors(a)[7] = (a[2] * a[6] - a[3] * a[5]) /\ Cofactors(a)[8] = (a[3] * a[4] - a[1] * a[6]) /\ Cofactors(a)[9] = (a[1] * a[5] - a[2] * a[4])
<1> SUFFICES ASSUME NEW a PROVE Cofactors(a)[1] = (a[5] * a[9] - a[6] * a[8]) /\ Cofactors(a)[2] = (a[6] * a[7] - a[4] * a[9]) /\ Cofactors(a)[3] = (a[4] * a[8] - a[5] * a[7]) /\ Cofactors(a)[4] = (a[8] * a[3] - a[9] * a[2]) /\ Cofactors(a)[5] = (a[9] * a[1] - a[7] * a[3]) /\ Cofactors(a)[6] = (a[7] * a[2] - a[8] * a[1]) /\ Cofactors(a)[7] = (a[2] * a[6] - a[3] * a[5]) /\ Cofactors(a)[8] = (a[3] * a[4] - a[1] * a[6]) /\ Cofactors(a)[9] = (a[1] * a[5] - a[2] * a[4])
  OBVIOUS
<1>0. Cofactors(a) = [k \in 1..9 |-> Cof(a, ((k - 1) \div 3) + 1, ((k - 1) % 3) + 1)]
  BY DEF Cofactors, MkDyad
<1>1. Cofactors(a)[1] = (a[5] * a[9] - a[6] * a[8])
  BY <1>0, DivMod, NxPv DEF Cof, D, DS
<1>2. Cofactors(a)[2] = (a[6] * a[7] - a[4] * a[9])
  BY <1>0, DivMod, NxPv DEF Cof, D, DS
<1>3. Cofactors(a)[3] = (a[4] * a[8] - a[5] * a[7])
  BY <1>0, DivMod, NxPv DEF Cof, D, DS
<1>4. Cofactors(a)[4] = (a[8] * a[3] - a[9] * a[2])
  BY <1>0, DivMod, NxPv DEF Cof, D, DS
<1>5. Cofactors(a)[5] = (a[9] * a[1] - a[7] * a[3])
  BY <1>0, DivMod, NxPv DEF Cof, D, DS
<1>6. Cofactors(a)[6] = (a[7] * a[2] - a[8] * a[1])
  BY <1>0, DivMod, NxPv DEF Cof, D, DS
<1>7. Cofactors(a)[7] = (a[2] * a[6] - a[3] * a[5])
  BY <1>0, DivMod, NxPv DEF Cof, D, DS
<1>8. Cofactors(a)[8] = (a[3] * a[4] - a[1] * a[6])
  BY <1>0, DivMod, NxPv DEF Cof, D, DS
<1>9. Cofactors(a)[9] = (a[1] * a[5] - a[2] * a[4])
  BY <1>0, DivMod, NxPv DEF Cof, D, DS
<1> QED BY <1>1, <1>2, <1>3, <1>4, <1>5, <1>6, <1>7, <1>8, <1>9
LEMMA AdjugateSlots == \A a : Adjugate(a)[1] = (a[5] * a[9] - a[6] * a[8]) /\ Adjugate(a)[2] = (a[8] * a[3] - a[9] * a[2]) /\ Adjugate(a)[3] = (a[2] * a[6] - a[3] * a[5]) /\ Adjugate(a)[4] = (a[6] * a[7] - a[4] * a[9]) /\ Adjugate(a)[5] = (a[9] * a[1] - a[7] * a[3]) /\ Adjugate(a)[6] = (a[3] * a[4] - a[1] * a[6]) /\ Adjugate(a)[7] = (a[4] * a[8] - a[5] * a[7]) /\ Adjugate(a)[8] = (a[7] * a[2] - a[8] * a[1]) /\ Adjugate(a)[9] = (a[1] * a[5] - a[2] * a[4])
  BY CofactorsSlots, TransposeSlotsAny DEF Adjugate
LEMMA MatMulSlots == \A a, b : MatMul(a, b)[1] = a[1] * b[1] + a[2] * b[4] + a[3] * b[7] /\ MatMul(a, b)[2] = a[1] * b[2] + a[2] * b[5] + a[3] * b[8] /\ MatMul(a, b)[3] = a[1] * b[3] + a[2] * b[6] + a[3] * b[9] /\ MatMul(a, b)[4] = a[4] * b[1] + a[5] * b[4] + a[6] * b[7] /\ MatMul(a, b)[5] = a[4] * b[2] + a[5] * b[5] + a[6] * b[8] /\ MatMul(a, b)[6] = a[4] * b[3] + a[5] * b[6] + a[6] * b[9] /\ MatMul(a, b)[7] = a[7] * b[1] + a[8] * b[4] + a[9] * b[7] /\ MatMul(a, b)[8] = a[7] * b[2] + a[8] * b[5] + a[9] * b[8] /\ MatMul(a, b)[9] = a[7] * b[3] + a[8] * b[6] + a[9] * b[9]
<1> SUFFICES ASSUME NEW a, NEW b PROVE MatMul(a, b)[1] = a[1] * b[1] + a[2] * b[4] + a[3] * b[7] /\ MatMul(a, b)[2] = a[1] * b[2] + a[2] * b[5] + a[3] * b[8] /\ MatMul(a, b)[3] = a[1] * b[3] + a[2] * b[6] + a[3] * b[9] /\ MatMul(a, b)[4] = a[4] * b[1] + a[5] * b[4] + a[6] * b[7] /\ MatMul(a, b)[5] = a[4] * b[2] + a[5] * b[5] + a[6] * b[8] /\ MatMul(a, b)[6] = a[4] * b[3] + a[5] * b[6] + a[6] * b[9] /\ MatMul(a, b)[7] = a[7] * b[1] + a[8] * b[4] + a[9] * b[7] /\ MatMul(a, b)[8] = a[7] * b[2] + a[8] * b[5] + a[9] * b[8] /\ MatMul(a, b)[9] = a[7] * b[3] + a[8] * b[6] + a[9] * b[9]
  OBVIOUS
<1>0. MatMul(a, b) = [k \in 1..9 |-> a[3 * ((((k - 1) \div 3) + 1) - 1) + 1] * b[3 * (1 - 1) + (((k - 1) % 3) + 1)] + a[3 * ((((k - 1) \div 3) + 1) - 1) + 2] * b[3 * (2 - 1) + (((k - 1) % 3) + 1)] + a[3 * ((((k - 1) \div 3) + 1) - 1) + 3] * b[3 * (3 - 1) + (((k - 1) % 3) + 1)]]
  BY DEF MatMul, MkDyad, D, DS
<1>1. MatMul(a, b)[1] = a[1] * b[1] + a[2] * b[4] + a[3] * b[7]
  BY <1>0, DivMod
<1>2. MatMul(a, b)[2] = a[1] * b[2] + a[2] * b[5] + a[3] * b[8]
  BY <1>0, DivMod
<1>3. MatMul(a, b)[3] = a[1] * b[3] + a[2] * b[6] + a[3] * b[9]
  BY <1>0, DivMod
<1>4. MatMul(a, b)[4] = a[4] * b[1] + a[5] * b[4] + a[6] * b[7]
  BY <1>0, DivMod
<1>5. MatMul(a, b)[5] = a[4] * b[2] + a[5] * b[5] + a[6] * b[8]
  BY <1>0, DivMod
<1>6. MatMul(a, b)[6] = a[4] * b[3] + a[5] * b[6] + a[6] * b[9]
  BY <1>0, DivMod
<1>7. MatMul(a, b)[7] = a[7] * b[1] + a[8] * b[4] + a[9] * b[7]
  BY <1>0, DivMod
<1>8. MatMul(a, b)[8] = a[7] * b[2] + a[8] * b[5] + a[9] * b[8]
  BY <1>0, DivMod
<1>9. MatMul(a, b)[9] = a[7] * b[3] + a[8] * b[6] + a[9] * b[9]
  BY <1>0, DivMod
<1> QED BY <1>1, <1>2, <1>3, <1>4, <1>5, <1>6, <1>7, <1>8, <1>9
LEMMA IdentitySlots == Identity[1] = 1 /\ Identity[2] = 0 /\ Identity[3] = 0 /\ Identity[4] = 0 /\ Identity[5] = 1 /\ Identity[6] = 0 /\ Identity[7] = 0 /\ Identity[8] = 0 /\ Identity[9] = 1
  BY DivMod DEF Identity, MkDyad
THEOREM AdjugateLawAll == \A a \in D9 : \A k \in 1..9 : MatMul(a, Adjugate(a))[k] = Det(a) * Identity[k] /\ MatMul(Adjugate(a), a)[k] = Det(a) * Identity[k]
<1> SUFFICES ASSUME NEW a \in D9 PROVE \A k \in 1..9 : MatMul(a, Adjugate(a))[k] = Det(a) * Identity[k] /\ MatMul(Adjugate(a), a)[k] = Det(a) * Identity[k]
  OBVIOUS
<1>d. Det(a) = (a[1] * (a[5] * a[9] - a[6] * a[8]) + a[2] * (a[6] * a[7] - a[4] * a[9]) + a[3] * (a[4] * a[8] - a[5] * a[7])) BY DetExplicit
<1>i. a[1] \in Int /\ a[2] \in Int /\ a[3] \in Int /\ a[4] \in Int /\ a[5] \in Int /\ a[6] \in Int /\ a[7] \in Int /\ a[8] \in Int /\ a[9] \in Int
  BY DEF D9
<1>1. MatMul(a, Adjugate(a))[1] = Det(a) * Identity[1] /\ MatMul(Adjugate(a), a)[1] = Det(a) * Identity[1]
  <2>1. MatMul(a, Adjugate(a))[1] = a[1] * (a[5] * a[9] - a[6] * a[8]) + a[2] * (a[6] * a[7] - a[4] * a[9]) + a[3] * (a[4] * a[8] - a[5] * a[7])
    BY MatMulSlots, AdjugateSlots
  <2>2. MatMul(Adjugate(a), a)[1] = (a[5] * a[9] - a[6] * a[8]) * a[1] + (a[8] * a[3] - a[9] * a[2]) * a[4] + (a[2] * a[6] - a[3] * a[5]) * a[7]
    BY MatMulSlots, AdjugateSlots
  <2>3. a[1] * (a[5] * a[9] - a[6] * a[8]) + a[2] * (a[6] * a[7] - a[4] * a[9]) + a[3] * (a[4] * a[8] - a[5] * a[7]) = (a[1] * (a[5] * a[9] - a[6] * a[8]) + a[2] * (a[6] * a[7] - a[4] * a[9]) + a[3] * (a[4] * a[8] - a[5] * a[7]))
    BY <1>i
  <2>4. (a[5] * a[9] - a[6] * a[8]) * a[1] + (a[8] * a[3] - a[9] * a[2]) * a[4] + (a[2] * a[6] - a[3] * a[5]) * a[7] = (a[1] * (a[5] * a[9] - a[6] * a[8]) + a[2] * (a[6] * a[7] - a[4] * a[9]) + a[3] * (a[4] * a[8] - a[5] * a[7]))
    BY <1>i
  <2>5. Det(a) * Identity[1] = (a[1] * (a[5] * a[9] - a[6] * a[8]) + a[2] * (a[6] * a[7] - a[4] * a[9]) + a[3] * (a[4] * a[8] - a[5] * a[7]))
    BY <1>d, <1>i, IdentitySlots
  <2> QED BY <2>1, <2>2, <2>3, <2>4, <2>5
<1>2. MatMul(a, Adjugate(a))[2] = Det(a) * Identity[2] /\ MatMul(Adjugate(a), a)[2] = Det(a) * Identity[2]
  <2>1. MatMul(a, Adjugate(a))[2] = a[1] * (a[8] * a[3] - a[9] * a[2]) + a[2] * (a[9] * a[1] - a[7] * a[3]) + a[3] * (a[7] * a[2] - a[8] * a[1])
    BY MatMulSlots, AdjugateSlots
  <2>2. MatMul(Adjugate(a), a)[2] = (a[5] * a[9] - a[6] * a[8]) * a[2] + (a[8] * a[3] - a[9] * a[2]) * a[5] + (a[2] * a[6] - a[3] * a[5]) * a[8]
    BY MatMulSlots, AdjugateSlots
  <2>3. a[1] * (a[8] * a[3] - a[9] * a[2]) + a[2] * (a[9] * a[1] - a[7] * a[3]) + a[3] * (a[7] * a[2] - a[8] * a[1]) = 0
    BY <1>i
  <2>4. (a[5] * a[9] - a[6] * a[8]) * a[2] + (a[8] * a[3] - a[9] * a[2]) * a[5] + (a[2] * a[6] - a[3] * a[5]) * a[8] = 0
    BY <1>i
  <2>5. Det(a) * Identity[2] = 0
    BY <1>d, <1>i, IdentitySlots
  <2> QED BY <2>1, <2>2, <2>3, <2>4, <2>5
<1>3. MatMul(a, Adjugate(a))[3] = Det(a) * Identity[3] /\ MatMul(Adjugate(a), a)[3] = Det(a) * Identity[3]
  <2>1. MatMul(a, Adjugate(a))[3] = a[1] * (a[2] * a[6] - a[3] * a[5]) + a[2] * (a[3] * a[4] - a[1] * a[6]) + a[3] * (a[1] * a[5] - a[2] * a[4])
    BY MatMulSlots, AdjugateSlots
  <2>2. MatMul(Adjugate(a), a)[3] = (a[5] * a[9] - a[6] * a[8]) * a[3] + (a[8] * a[3] - a[9] * a[2]) * a[6] + (a[2] * a[6] - a[3] * a[5]) * a[9]
    BY MatMulSlots, AdjugateSlots
  <2>3. a[1] * (a[2] * a[6] - a[3] * a[5]) + a[2] * (a[3] * a[4] - a[1] * a[6]) + a[3] * (a[1] * a[5] - a[2] * a[4]) = 0
    BY <1>i
  <2>4. (a[5] * a[9] - a[6] * a[8]) * a[3] + (a[8] * a[3] - a[9] * a[2]) * a[6] + (a[2] * a[6] - a[3] * a[5]) * a[9] = 0
    BY <1>i
  <2>5. Det(a) * Identity[3] = 0
    BY <1>d, <1>i, IdentitySlots
  <2> QED BY <2>1, <2>2, <2>3, <2>4, <2>5
<1>4. MatMul(a, Adjugate(a))[4] = Det(a) * Identity[4] /\ MatMul(Adjugate(a), a)[4] = Det(a) * Identity[4]
  <2>1. MatMul(a, Adjugate(a))[4] = a[4] * (a[5] * a[9] - a[6] * a[8]) + a[5] * (a[6] * a[7] - a[4] * a[9]) + a[6] * (a[4] * a[8] - a[5] * a[7])
    BY MatMulSlots, AdjugateSlots
  <2>2. MatMul(Adjugate(a), a)[4] = (a[6] * a[7] - a[4] * a[9]) * a[1] + (a[9] * a[1] - a[7] * a[3]) * a[4] + (a[3] * a[4] - a[1] * a[6]) * a[7]
    BY MatMulSlots, AdjugateSlots
  <2>3. a[4] * (a[5] * a[9] - a[6] * a[8]) + a[5] * (a[6] * a[7] - a[4] * a[9]) + a[6] * (a[4] * a[8] - a[5] * a[7]) = 0
    BY <1>i
  <2>4. (a[6] * a[7] - a[4] * a[9]) * a[1] + (a[9] * a[1] - a[7] * a[3]) * a[4] + (a[3] * a[4] - a[1] * a[6]) * a[7] = 0
    BY <1>i
  <2>5. Det(a) * Identity[4] = 0
    BY <1>d, <1>i, IdentitySlots
  <2> QED BY <2>1, <2>2, <2>3, <2>4, <2>5
<1>5. MatMul(a, Adjugate(a))[5] = Det(a) * Identity[5] /\ MatMul(Adjugate(a), a)[5] = Det(a) * Identity[5]
  <2>1. MatMul(a, Adjugate(a))[5] = a[4] * (a[8] * a[3] - a[9] * a[2]) + a[5] * (a[9] * a[1] - a[7] * a[3]) + a[6] * (a[7] * a[2] - a[8] * a[1])
    BY MatMulSlots, AdjugateSlots
  <2>2. MatMul(Adjugate(a), a)[5] = (a[6] * a[7] - a[4] * a[9]) * a[2] + (a[9] * a[1] - a[7] * a[3]) * a[5] + (a[3] * a[4] - a[1] * a[6]) * a[8]
    BY MatMulSlots, AdjugateSlots
  <2>3. a[4] * (a[8] * a[3] - a[9] * a[2]) + a[5] * (a[9] * a[1] - a[7] * a[3]) + a[6] * (a[7] * a[2] - a[8] * a[1]) = (a[1] * (a[5] * a[9] - a[6] * a[8]) + a[2] * (a[6] * a[7] - a[4] * a[9]) + a[3] * (a[4] * a[8] - a[5] * a[7]))
    BY <1>i
  <2>4. (a[6] * a[7] - a[4] * a[9]) * a[2] + (a[9] * a[1] - a[7] * a[3]) * a[5] + (a[3] * a[4] - a[1] * a[6]) * a[8] = (a[1] * (a[5] * a[9] - a[6] * a[8]) + a[2] * (a[6] * a[7] - a[4] * a[9]) + a[3] * (a[4] * a[8] - a[5] * a[7]))
    BY <1>i
  <2>5. Det(a) * Identity[5] = (a[1] * (a[5] * a[9] - a[6] * a[8]) + a[2] * (a[6] * a[7] - a[4] * a[9]) + a[3] * (a[4] * a[8] - a[5] * a[7]))
    BY <1>d, <1>i, IdentitySlots
  <2> QED BY <2>1, <2>2, <2>3, <2>4, <2>5
<1>6. MatMul(a, Adjugate(a))[6] = Det(a) * Identity[6] /\ MatMul(Adjugate(a), a)[6] = Det(a) * Identity[6]
  <2>1. MatMul(a, Adjugate(a))[6] = a[4] * (a[2] * a[6] - a[3] * a[5]) + a[5] * (a[3] * a[4] - a[1] * a[6]) + a[6] * (a[1] * a[5] - a[2] * a[4])
    BY MatMulSlots, AdjugateSlots
  <2>2. MatMul(Adjugate(a), a)[6] = (a[6] * a[7] - a[4] * a[9]) * a[3] + (a[9] * a[1] - a[7] * a[3]) * a[6] + (a[3] * a[4] - a[1] * a[6]) * a[9]
    BY MatMulSlots, AdjugateSlots
  <2>3. a[4] * (a[2] * a[6] - a[3] * a[5]) + a[5] * (a[3] * a[4] - a[1] * a[6]) + a[6] * (a[1] * a[5] - a[2] * a[4]) = 0
    BY <1>i
  <2>4. (a[6] * a[7] - a[4] * a[9]) * a[3] + (a[9] * a[1] - a[7] * a[3]) * a[6] + (a[3] * a[4] - a[1] * a[6]) * a[9] = 0
    BY <1>i
  <2>5. Det(a) * Identity[6] = 0
    BY <1>d, <1>i, IdentitySlots
  <2> QED BY <2>1, <2>2, <2>3, <2>4, <2>5
<1>7. MatMul(a, Adjugate(a))[7] = Det(a) * Identity[7] /\ MatMul(Adjugate(a), a)[7] = Det(a) * Identity[7]
  <2>1. MatMul(a, Adjugate(a))[7] = a[7] * (a[5] * a[9] - a[6] * a[8]) + a[8] * (a[6] * a[7] - a[4] * a[9]) + a[9] * (a[4] * a[8] - a[5] * a[7])
    BY MatMulSlots, AdjugateSlots
  <2>2. MatMul(Adjugate(a), a)[7] = (a[4] * a[8] - a[5] * a[7]) * a[1] + (a[7] * a[2] - a[8] * a[1]) * a[4] + (a[1] * a[5] - a[2] * a[4]) * a[7]
    BY MatMulSlots, AdjugateSlots
  <2>3. a[7] * (a[5] * a[9] - a[6] * a[8]) + a[8] * (a[6] * a[7] - a[4] * a[9]) + a[9] * (a[4] * a[8] - a[5] * a[7]) = 0
    BY <1>i
  <2>4. (a[4] * a[8] - a[5] * a[7]) * a[1] + (a[7] * a[2] - a[8] * a[1]) * a[4] + (a[1] * a[5] - a[2] * a[4]) * a[7] = 0
    BY <1>i
  <2>5. Det(a) * Identity[7] = 0
    BY <1>d, <1>i, IdentitySlots
  <2> QED BY <2>1, <2>2, <2>3, <2>4, <2>5
<1>8. MatMul(a, Adjugate(a))[8] = Det(a) * Identity[8] /\ MatMul(Adjugate(a), a)[8] = Det(a) * Identity[8]
  <2>1. MatMul(a, Adjugate(a))[8] = a[7] * (a[8] * a[3] - a[9] * a[2]) + a[8] * (a[9] * a[1] - a[7] * a[3]) + a[9] * (a[7] * a[2] - a[8] * a[1])
    BY MatMulSlots, AdjugateSlots
  <2>2. MatMul(Adjugate(a), a)[8] = (a[4] * a[8] - a[5] * a[7]) * a[2] + (a[7] * a[2] - a[8] * a[1]) * a[5] + (a[1] * a[5] - a[2] * a[4]) * a[8]
    BY MatMulSlots, AdjugateSlots
  <2>3. a[7] * (a[8] * a[3] - a[9] * a[2]) + a[8] * (a[9] * a[1] - a[7] * a[3]) + a[9] * (a[7] * a[2] - a[8] * a[1]) = 0
    BY <1>i
  <2>4. (a[4] * a[8] - a[5] * a[7]) * a[2] + (a[7] * a[2] - a[8] * a[1]) * a[5] + (a[1] * a[5] - a[2] * a[4]) * a[8] = 0
    BY <1>i
  <2>5. Det(a) * Identity[8] = 0
    BY <1>d, <1>i, IdentitySlots
  <2> QED BY <2>1, <2>2, <2>3, <2>4, <2>5
<1>9. MatMul(a, Adjugate(a))[9] = Det(a) * Identity[9] /\ MatMul(Adjugate(a), a)[9] = Det(a) * Identity[9]
  <2>1. MatMul(a, Adjugate(a))[9] = a[7] * (a[2] * a[6] - a[3] * a[5]) + a[8] * (a[3] * a[4] - a[1] * a[6]) + a[9] * (a[1] * a[5] - a[2] * a[4])
    BY MatMulSlots, AdjugateSlots
  <2>2. MatMul(Adjugate(a), a)[9] = (a[4] * a[8] - a[5] * a[7]) * a[3] + (a[7] * a[2] - a[8] * a[1]) * a[6] + (a[1] * a[5] - a[2] * a[4]) * a[9]
    BY MatMulSlots, AdjugateSlots
  <2>3. a[7] * (a[2] * a[6] - a[3] * a[5]) + a[8] * (a[3] * a[4] - a[1] * a[6]) + a[9] * (a[1] * a[5] - a[2] * a[4]) = (a[1] * (a[5] * a[9] - a[6] * a[8]) + a[2] * (a[6] * a[7] - a[4] * a[9]) + a[3] * (a[4] * a[8] - a[5] * a[7]))
    BY <1>i
  <2>4. (a[4] * a[8] - a[5] * a[7]) * a[3] + (a[7] * a[2] - a[8] * a[1]) * a[6] + (a[1] * a[5] - a[2] * a[4]) * a[9] = (a[1] * (a[5] * a[9] - a[6] * a[8]) + a[2] * (a[6] * a[7] - a[4] * a[9]) + a[3] * (a[4] * a[8] - a[5] * a[7]))
    BY <1>i
  <2>5. Det(a) * Identity[9] = (a[1] * (a[5] * a[9] - a[6] * a[8]) + a[2] * (a[6] * a[7] - a[4] * a[9]) + a[3] * (a[4] * a[8] - a[5] * a[7]))
    BY <1>d, <1>i, IdentitySlots
  <2> QED BY <2>1, <2>2, <2>3, <2>4, <2>5
<1> QED BY <1>1, <1>2, <1>3, <1>4, <1>5, <1>6, <1>7, <1>8, <1>9
=============================================================================
