------------------------------- MODULE Trace_Faults -------------------------------
(* Acceptance for C20: parse classes, and the outcome of re-running the conformance harnesses      *)
(* under AddressSanitizer + UndefinedBehaviorSanitizer with libstdc++ debug assertions.  A run is   *)
(* a "HarnessRun" event when it ended normally; anything else is a "Fault" event, which no action   *)
(* of the specification accepts as conforming: it is recorded as a violation.                       *)
EXTENDS Parse, Sequences, FiniteSets, Json, IOUtils, TLC
Events == ndJsonDeserialize(IOEnv.TRACE)
VARIABLES l, bad, runs, notes
vars == <<l, bad, runs, notes>>
Init == l = 1 /\ bad = <<>> /\ runs = {} /\ notes = <<>>
IsEvent(e) == l <= Len(Events) /\ Events[l].e = e /\ l' = l + 1
TParse == LET r == Events[l] IN
  /\ IsEvent("ParseClass") /\ r.n > 0
  /\ bad' = IF ParseClassOK(r) THEN bad ELSE Append(bad, [cls |-> "parse_not_total", key |-> r.fn \o ":" \o r.cls, detail |-> r.witness_hex])
  /\ notes' = IF ParseClassAsReference(r) \/ Len(notes) >= 50 THEN notes ELSE Append(notes, [key |-> r.fn \o ":" \o r.cls, detail |-> r.witness_hex])
  /\ UNCHANGED runs
TRun == LET r == Events[l] IN
  /\ IsEvent("HarnessRun") /\ r.events >= 0
  /\ runs' = runs \cup {r.harness} /\ UNCHANGED <<bad, notes>>
TFault == LET r == Events[l] IN
  /\ IsEvent("Fault")
  /\ bad' = Append(bad, [cls |-> "fault", key |-> r.harness \o ":" \o r.kind, detail |-> r.detail])
  /\ UNCHANGED <<runs, notes>>
TFinish == /\ l = Len(Events) + 1 /\ l' = l + 1
           /\ JsonSerialize(IOEnv.OUT, [bad |-> bad, runs |-> Cardinality(runs), notes |-> notes])
           /\ UNCHANGED <<bad, runs, notes>>
Next == TParse \/ TRun \/ TFault \/ TFinish
Spec == Init /\ [][Next]_vars
Accepted == TLCGet("stats").diameter - 2 = Len(Events)
=============================================================================
