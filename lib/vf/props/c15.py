"""C15 — printing is lossless and canonical; serialisations are well-formed."""
import concurrent.futures as cf
import json
import os

from .. import common as C, battery as B

import sys
sys.path.insert(0, C.HARNESS)
import qgen  # noqa: E402


def run(tier):
    chk = C.Check('C15', tier)
    thorough = tier == 'thorough'
    exe = C.compile_cxx('numfmt', [os.path.join(C.HARNESS, 'numfmt.cpp')], flags=['-std=c++17', '-O2', '-fno-fast-math', '-w'], libs=['-lquadmath'])
    outs = [C.run([exe, 'classes', str(C.SEED), str(200000 if not thorough else 3000000)], timeout=1700).stdout.decode()]
    allfloat_checked = 0
    if thorough:   # every float bit pattern, in parallel slices
        step = (1 << 32) // 64

        def sl(i):
            return C.run([exe, 'allfloats', str(i * step), str((i + 1) * step)], timeout=3400).stdout.decode()
        with cf.ThreadPoolExecutor(C.NCPU) as ex:
            outs += list(ex.map(sl, range(64)))
    evs = []
    for o in outs:
        evs += [json.loads(x) for x in o.splitlines() if x.startswith('{')]
    if thorough:
        allfloat_checked = sum(e['n'] for e in evs if e['num'] == 'f')
    bexe, qs, ks = B.build()
    cev = B.run_modes(bexe, ks, ['composite'])
    # JSON validity with an independent parser; fields carry the printed numbers
    json_bad = 0
    for e in cev:
        if e['form'] in ('JSON', 'JSON_unit') and e.get('raw'):
            try:
                json.loads(e['raw'])
            except ValueError:
                json_bad += 1
                chk.violation(f"json_invalid:{e['type']}:{e['num']}", f"JSON() of {e['type']}<{e['num']}> is not valid JSON: {e['raw'][:200]}", e)
        e.pop('raw', None)
    wd = C.work_dir('c15')
    shapes = {n: q['shape'] for n, q in qs.items()}
    for r in qgen.RAWTYPES:
        shapes[r] = r
    sp = os.path.join(wd, 'shapes.json')
    json.dump(shapes, open(sp, 'w'))
    tp = C.write_ndjson(os.path.join(wd, 'print.ndjson'), evs + cev)
    outp = os.path.join(wd, 'print_bad.json')
    res = C.run_tlc('Trace_Print', 'Trace_Print.cfg', env={'TRACE': tp, 'SHAPES': sp, 'OUT': outp}, workers=1, timeout=1700, heap='12g')
    chk.add_tlc('Trace_Print(number classes + composite templates)', res, traces=1, events=len(evs) + len(cev))
    if res.ok and os.path.exists(outp):
        j = json.load(open(outp))
        for b in j['bad']:
            if b['cls'] == 'number_format':
                chk.violation(f"number_format:{b['key']}:e10={b['e10']}:{b['text']}", f"Print<{b['key']}>({b['x']}) = {b['text']} (decimal exponent {b['e10']})", b)
            else:
                chk.violation(f"{b['cls']}:{b['key']}", f"{b['cls']} {b['key']} template {b['text']}", b)
        if j['decades_missing']:
            chk.note_inconclusive(f"{j['decades_missing']} (numeric type, decade, sign) classes not exercised")
    else:
        k = res.distinct - 1
        allv = evs + cev
        chk.violation('print_trace_rejected', f'Trace_Print rejected event {k}: {allv[k] if k < len(allv) else None}', allv[k] if k < len(allv) else None)
    chk.layer('A', number_classes=len(evs), numbers_printed=sum(e['n'] for e in evs), all_float_bit_patterns=allfloat_checked,
              composite_events=len(cev), composite_types=len({e['type'] for e in cev}), json_parsed=len([e for e in cev if e['form'] == 'JSON']),
              note='classes = (numeric type, decimal exponent, sign, notation, significant digits, round trip); +-6 ulps around every power of ten of every type, '
                   '8 values inside every decade, stratified random bit patterns over every binade; composite: 3 value sets per type, numbers must be string-identical '
                   'to Print(component) in declared order, template must equal NumFormat!Template')
    chk.count(evaluations=sum(e['n'] for e in evs) + len(cev), distinct=len(evs) + len(cev))
    chk.cov['rule'] = 'see layer A; thorough adds all 2^32 float bit patterns (finite normal ones judged)'
    for e in evs[:3] + cev[:2]:
        chk.sample(e)
    chk.assumptions += ['decimal exponent of a value computed with powers of ten in __float128; at a power of ten that is not representable, the representable value nearest to it is accepted in either class',
                        'parsing back uses strtof/strtod/strtold (correctly rounded in glibc)']
    return chk.finish()
