SPECIFICATION Spec
CONSTANTS BudgetEquiv = 4  BudgetInverse = 4  BudgetDef = 4  BudgetTheory = 8
POSTCONDITION Accepted
CHECK_DEADLOCK FALSE
