// C10 / C11: directions are unit vectors; magnitude x direction rebuilds the vector; angles lie in [0, pi].
#pragma once
#include <array>
#include <cmath>
#include <cstdint>
#include <cstdio>
#include <limits>
#include <random>
#include <string>
#include <type_traits>
#include <vector>
#include <quadmath.h>

namespace dr {
template <class T> struct NumName;
template <> struct NumName<float> { static constexpr const char* c = "f"; };
template <> struct NumName<double> { static constexpr const char* c = "d"; };
template <> struct NumName<long double> { static constexpr const char* c = "l"; };
typedef __float128 Qd;
template <class T> inline T eps() { return std::numeric_limits<T>::epsilon(); }

// accumulated verdict of one construction path (abstract event)
struct PathAcc { long n = 0; double len_ulps = 0, par_ulps = 0, resc_ulps = 0; long wrong_way = 0, pow2_diff = 0, zero_bad = 0, axis_bad = 0, nonfinite = 0; long double wit = 0; };
inline void emit_path(const char* path, int dim, const char* num, const PathAcc& a) {
  printf("{\"e\":\"DirPath\",\"path\":\"%s\",\"dim\":%d,\"num\":\"%s\",\"n\":%ld,\"len_ulps\":%ld,\"par_ulps\":%ld,\"resc_ulps\":%ld,\"wrong_way\":%ld,\"pow2_diff\":%ld,\"zero_bad\":%ld,\"axis_bad\":%ld,\"nonfinite\":%ld,\"witness\":\"%La\"}\n",
         path, dim, num, a.n, (long)std::ceil(std::min(a.len_ulps, 1e9)), (long)std::ceil(std::min(a.par_ulps, 1e9)), (long)std::ceil(std::min(a.resc_ulps, 1e9)), a.wrong_way, a.pow2_diff, a.zero_bad, a.axis_bad, a.nonfinite, a.wit); }

// D: direction-like result as component array (length DIM, zero padded to 3)
template <class T, int DIM, class F> void path(const char* name, uint64_t seed, int n, F make /* (const T* comps) -> std::array<T,3> */) {
  std::mt19937_64 g(seed); PathAcc acc; const int emax = std::numeric_limits<T>::max_exponent / 2 - 40;   // squared length (and the square of every component, also of the rescaled and near-degenerate inputs) must neither overflow nor underflow
  for (int t = 0; t < n; t++) {
    T v[3] = {0, 0, 0}; int ex = (int)(g() % (2 * emax + 1)) - emax; if (t % 4 == 0) ex = (int)(g() % 41) - 20;
    for (int i = 0; i < DIM; i++) { T m = (T)(1.0L + (long double)(g() >> 11) / (long double)(1ULL << 53)); v[i] = std::ldexp(m, ex - (int)(g() % 3)) * ((g() & 1) ? 1 : -1); }
    if (t % 9 == 1) v[g() % DIM] = std::ldexp(v[0], -(int)(g() % 28));        // near-degenerate: one component much smaller
    if (t % 9 == 2) { // disparate: one dominant component, the others anywhere below it down to the bottom of the normal range (their squares may underflow: only the squared LENGTH must stay in range)
      int dom = (int)(g() % DIM); const int lo = std::numeric_limits<T>::min_exponent + 8;
      for (int i = 0; i < DIM; i++) if (i != dom) { T m = (T)(1.0L + (long double)(g() >> 11) / (long double)(1ULL << 53)); int top = ex - 3; v[i] = std::ldexp(m, lo + (int)(g() % (unsigned)(top - lo + 1))) * ((g() & 1) ? 1 : -1); } }
    std::array<T, 3> d = make(v);
    bool fin = true; for (int i = 0; i < DIM; i++) fin &= std::isfinite((long double)d[i]); if (!fin) { acc.nonfinite++; acc.n++; continue; }
    Qd l2 = 0; for (int i = 0; i < DIM; i++) l2 += (Qd)d[i] * d[i]; double lu = (double)(fabsq(sqrtq(l2) - 1) / (Qd)eps<T>()); if (lu > acc.len_ulps) { acc.len_ulps = lu; acc.wit = (long double)v[0]; }
    // parallel and same way: |d x v| / |v| in eps, d.v > 0
    Qd vv = 0, dv = 0; for (int i = 0; i < DIM; i++) { vv += (Qd)v[i] * v[i]; dv += (Qd)d[i] * v[i]; } Qd vn = sqrtq(vv);
    Qd cx = (Qd)d[1] * v[2] - (Qd)d[2] * v[1], cy = (Qd)d[2] * v[0] - (Qd)d[0] * v[2], cz = (Qd)d[0] * v[1] - (Qd)d[1] * v[0];
    double pu = (double)(sqrtq(cx * cx + cy * cy + cz * cz) / vn / (Qd)eps<T>()); if (pu > acc.par_ulps) acc.par_ulps = pu; if (!(dv > 0)) acc.wrong_way++;
    // rescaling: exactly invariant for powers of two, to rounding otherwise
    { T w[3]; int k = (int)(g() % 9) - 4; for (int i = 0; i < 3; i++) w[i] = std::ldexp(v[i], k); auto d2 = make(w); for (int i = 0; i < DIM; i++) if (!(d2[i] == d[i])) { acc.pow2_diff++; break; } }
    { T w[3]; T s = (T)(1.0L + (long double)(g() >> 11) / (long double)(1ULL << 53)) * 3; for (int i = 0; i < 3; i++) w[i] = v[i] * s; auto d2 = make(w); for (int i = 0; i < DIM; i++) { double u = (double)(fabsq((Qd)d2[i] - (Qd)d[i]) / (Qd)eps<T>()); if (u > acc.resc_ulps) acc.resc_ulps = u; } }
    acc.n++;
  }
  { T z[3] = {0, 0, 0}; auto d = make(z); for (int i = 0; i < DIM; i++) if (!(d[i] == 0)) acc.zero_bad++; T nz[3] = {-(T)0, 0, -(T)0}; d = make(nz); for (int i = 0; i < DIM; i++) if (!(d[i] == 0)) acc.zero_bad++; }
  for (int ax = 0; ax < DIM; ax++) for (int sgn = -1; sgn <= 1; sgn += 2) for (int k : {-40, -1, 0, 3, 40}) { T a[3] = {0, 0, 0}; a[ax] = std::ldexp((T)(sgn * 1.5), k > 30 || k < -30 ? k / 2 : k); auto d = make(a);
      for (int i = 0; i < DIM; i++) if (!(d[i] == (i == ax ? (T)sgn : (T)0))) acc.axis_bad++; }
  emit_path(name, DIM, NumName<T>::c, acc);
}

// vector quantity: magnitude = Euclidean norm, accessors, magnitude * direction
template <class Q, class T, int DIM, class MK, class DIRF> void quantity(const char* name, uint64_t seed, int n, MK mk, DIRF dirof) {
  std::mt19937_64 g(seed); double mag_ulps = 0, rec_ulps = 0; long slot_bad = 0, cnt = 0; const int emax = std::numeric_limits<T>::max_exponent / 2 - 8;
  for (int t = 0; t < n; t++) { T v[3] = {0, 0, 0}; int ex = (int)(g() % (2 * emax + 1)) - emax;
    for (int i = 0; i < DIM; i++) { T m = (T)(1.0L + (long double)(g() >> 11) / (long double)(1ULL << 53)); v[i] = std::ldexp(m, ex - (int)(g() % 3)) * ((g() & 1) ? 1 : -1); }
    if (t == 0) { v[0] = 3; v[1] = -4; if (DIM == 3) v[2] = 12; }
    if (t % 9 == 2) { int dom = (int)(g() % DIM); const int lo = std::numeric_limits<T>::min_exponent + 8;   // one dominant component, the others anywhere below it (only the squared length must stay in range)
      for (int i = 0; i < DIM; i++) if (i != dom) { T m = (T)(1.0L + (long double)(g() >> 11) / (long double)(1ULL << 53)); int top = ex - 3; v[i] = std::ldexp(m, lo + (int)(g() % (unsigned)(top - lo + 1))) * ((g() & 1) ? 1 : -1); } }
    Q q = mk(v); T mag = q.Magnitude().Value(); Qd l2 = 0; for (int i = 0; i < DIM; i++) l2 += (Qd)v[i] * v[i]; Qd w = sqrtq(l2);
    double u = (double)(fabsq((Qd)mag - w) / w / (Qd)eps<T>()); if (u > mag_ulps) mag_ulps = u;
    if (!(q.x().Value() == v[0]) || !(q.y().Value() == v[1])) slot_bad++;
    if constexpr (DIM == 3) { if (!(q.z().Value() == v[2])) slot_bad++; }
    auto r = q.Magnitude() * dirof(q);   // for displacements the product is typed as a position; the components are what is compared
    T rc[3] = {r.x().Value(), r.y().Value(), 0}; if constexpr (DIM == 3) rc[2] = r.z().Value();
    for (int i = 0; i < DIM; i++) { double e = (double)(fabsq((Qd)rc[i] - (Qd)v[i]) / w / (Qd)eps<T>()); if (e > rec_ulps) rec_ulps = e; }
    cnt++; }
  printf("{\"e\":\"VecQuantity\",\"type\":\"%s\",\"dim\":%d,\"num\":\"%s\",\"n\":%ld,\"mag_ulps\":%ld,\"recompose_ulps\":%ld,\"slot_bad\":%ld}\n", name, DIM, NumName<T>::c, cnt,
         (long)std::ceil(std::min(mag_ulps, 1e9)), (long)std::ceil(std::min(rec_ulps, 1e9)), slot_bad);
}

// ---- angles ----
// geometry classes: 0 parallel, 1 antiparallel, 2 nearly parallel, 3 nearly antiparallel, 4 orthogonal, 5 generic
struct AngAcc { long n = 0, nan = 0, out = 0, asym = 0, scale = 0; double err = 0; long double wa[3] = {0, 0, 0}, wb[3] = {0, 0, 0}; };
template <class T, int DIM, class F> void angle_kernel(const char* name, bool a_norm, bool b_norm, uint64_t seed, int n, F ang /* (const T* a, const T* b) -> T */, F ang_rev) {
  std::mt19937_64 g(seed); const char* gn[6] = {"parallel", "antiparallel", "nearly_parallel", "nearly_antiparallel", "orthogonal", "generic"};
  const Qd PI = strtoflt128("3.14159265358979323846264338327950288419716939937510", 0);
  const double tol = 16 * std::sqrt((double)eps<T>());      // conditioning of acos near +-1: sqrt(eps)
  for (int cls = 0; cls < 6; cls++) { AngAcc acc;
    for (int t = 0; t < n; t++) {
      T a[3] = {0, 0, 0}, b[3] = {0, 0, 0}; const int er = std::numeric_limits<T>::max_exponent / 2 - 12;   // every length in the range where its own square neither overflows nor underflows
      int ea = (int)(g() % (2 * er + 1)) - er, eb = (int)(g() % (2 * er + 1)) - er; if (t % 3 == 0) { ea = (int)(g() % 41) - 20; eb = (int)(g() % 41) - 20; }
      for (int i = 0; i < DIM; i++) { T m = (T)(1.0L + (long double)(g() >> 11) / (long double)(1ULL << 53)); a[i] = std::ldexp(m, ea) * ((g() & 1) ? 1 : -1); }
      T k = std::ldexp((T)(1.0L + (long double)(g() >> 11) / (long double)(1ULL << 53)), eb - ea);
      if (cls == 0 || cls == 2) for (int i = 0; i < DIM; i++) b[i] = a[i] * k;
      if (cls == 1 || cls == 3) for (int i = 0; i < DIM; i++) b[i] = -a[i] * k;
      if (cls == 2 || cls == 3) { int i = (int)(g() % DIM); b[i] += b[i] * std::ldexp((T)1, -(int)(g() % (std::numeric_limits<T>::digits - 2)) - 2); }
      if (cls == 4) { if (DIM == 2) { b[0] = -a[1] * k; b[1] = a[0] * k; } else { b[0] = -a[1] * k; b[1] = a[0] * k; b[2] = 0; } }
      if (cls == 5) for (int i = 0; i < DIM; i++) { T m = (T)(1.0L + (long double)(g() >> 11) / (long double)(1ULL << 53)); b[i] = std::ldexp(m, eb) * ((g() & 1) ? 1 : -1); }
      T th = ang(a, b); acc.n++;
      if (th != th) { if (!acc.nan) { for (int i = 0; i < 3; i++) { acc.wa[i] = a[i]; acc.wb[i] = b[i]; } } acc.nan++; continue; }
      if (!(th >= 0) || (Qd)th > PI * (1 + 2 * (Qd)eps<T>())) { acc.out++; continue; }
      // reference: atan2(|a x b|, a.b) on the operands as the kernel sees them (normalised operands are unit vectors of the same direction)
      // (operands rescaled by powers of two first: the reference itself must not overflow for extreme lengths)
      Qd qa[3], qb[3]; { int xa = -100000, xb = -100000; for (int i = 0; i < 3; i++) { int e; if (a[i] != 0) { std::frexp(a[i], &e); xa = std::max(xa, e); } if (b[i] != 0) { std::frexp(b[i], &e); xb = std::max(xb, e); } } for (int i = 0; i < 3; i++) { qa[i] = ldexpq((Qd)a[i], -xa); qb[i] = ldexpq((Qd)b[i], -xb); } }
      Qd cx = qa[1] * qb[2] - qa[2] * qb[1], cy = qa[2] * qb[0] - qa[0] * qb[2], cz = qa[0] * qb[1] - qa[1] * qb[0], dt = 0; for (int i = 0; i < 3; i++) dt += qa[i] * qb[i];
      Qd ref = atan2q(sqrtq(cx * cx + cy * cy + cz * cz), dt); double e = (double)fabsq((Qd)th - ref); if (e > acc.err) acc.err = e;
      T th2 = ang_rev(b, a); if (!(th2 == th) && std::fabs((double)(th2 - th)) > tol) acc.asym++;                    // symmetric in its arguments
      T a2[3], b2[3]; for (int i = 0; i < 3; i++) { a2[i] = a[i] * 8; b2[i] = b[i] / 4; } T th3 = ang(a2, b2); if (!(th3 == th)) acc.scale++;   // independent of the lengths (exact for powers of two)
    }
    printf("{\"e\":\"AngleClass\",\"kernel\":\"%s\",\"dim\":%d,\"num\":\"%s\",\"geom\":\"%s\",\"n\":%ld,\"nan\":%ld,\"out_of_range\":%ld,\"asymmetric\":%ld,\"scale_dependent\":%ld,\"err_over_tol_x1000\":%ld,\"wa\":[\"%La\",\"%La\",\"%La\"],\"wb\":[\"%La\",\"%La\",\"%La\"]}\n",
           name, DIM, NumName<T>::c, gn[cls], acc.n, acc.nan, acc.out, acc.asym, acc.scale, (long)std::ceil(std::min(1e9, acc.err / tol * 1000)), acc.wa[0], acc.wa[1], acc.wa[2], acc.wb[0], acc.wb[1], acc.wb[2]);
  }
  (void)a_norm; (void)b_norm;
}
// exact classes on axis-aligned pairs: 0, pi/2, pi
template <class T, int DIM, class F> void angle_axes(const char* name, F ang) {
  const Qd PI = strtoflt128("3.14159265358979323846264338327950288419716939937510", 0); long bad = 0, cnt = 0;
  for (int i = 0; i < DIM; i++) for (int j = 0; j < DIM; j++) for (int si = -1; si <= 1; si += 2) for (int sj = -1; sj <= 1; sj += 2) { T a[3] = {0, 0, 0}, b[3] = {0, 0, 0}; a[i] = (T)(si * 2); b[j] = (T)(sj * 0.5);
      T th = ang(a, b); Qd want = i != j ? PI / 2 : (si == sj ? (Qd)0 : PI); cnt++; if (!(fabsq((Qd)th - want) <= 2 * (Qd)eps<T>() * 4)) bad++; }
  printf("{\"e\":\"AngleAxes\",\"kernel\":\"%s\",\"dim\":%d,\"num\":\"%s\",\"n\":%ld,\"bad\":%ld}\n", name, DIM, NumName<T>::c, cnt, bad);
}
}  // namespace dr
