------------------------------- MODULE Programs -------------------------------
(* K2 across types: user programs that chain relations of the extracted relation graph.            *)
(* Registers hold typed objects [q |-> quantity type (or "Number"), v |-> stored SI components].     *)
(* Actions: Construct an object of a type that can be combined with what is already there, BinOp     *)
(* (any operator instance the graph offers for the operand types, result type taken from the graph), *)
(* and CtorTwin (a two-argument constructor that has an operator twin must give the operator's        *)
(* value).  Values are small integers, division only when exact, everything bounded by MaxAbs so      *)
(* that float arithmetic is exact; the real library must therefore reproduce every state bit for bit. *)
EXTENDS Integers, Sequences, FiniteSets, TLC, Json, IOUtils
CONSTANTS Regs, MaxAbs, Depth
G == JsonDeserialize(IOEnv.PGRAPH)
(* G.ops      : "A|op|B" |-> result type                                                             *)
(* G.ncomp    : type |-> number of components                                                        *)
(* G.partners : type |-> sequence of types it can be combined with by some operator                   *)
(* G.twins    : "C|A|B" |-> [op |-> operator, swap |-> 0 or 1]   constructor C(A,B) twins A op B / B op A *)
(* G.patterns : "n" |-> sequence of component tuples                                                 *)
VARIABLES store, hist
vars == <<store, hist>>
Undef == [q |-> "", v |-> <<>>]
Key(a, op, b) == a \o "|" \o op \o "|" \o b
SeqSet(s) == {s[i] : i \in 1..Len(s)}
Types == DOMAIN G.ncomp
Bc(v, i) == IF Len(v) = 1 THEN v[1] ELSE v[i]
Max(x, y) == IF x >= y THEN x ELSE y
N(a, b) == Max(Len(a), Len(b))
Abs(x) == IF x < 0 THEN -x ELSE x
ExactDiv(x, n) == IF n > 0 THEN x \div n ELSE (-x) \div (-n)
Divisible(a, b) == \A i \in 1..N(a, b) : Bc(b, i) # 0 /\ Bc(a, i) % Abs(Bc(b, i)) = 0
Apply(op, a, b) == [i \in 1..N(a, b) |->
   CASE op = "+" -> Bc(a, i) + Bc(b, i) [] op = "-" -> Bc(a, i) - Bc(b, i) [] op = "*" -> Bc(a, i) * Bc(b, i)
     [] op = "/" -> ExactDiv(Bc(a, i), Bc(b, i))]
Small(v) == \A i \in 1..Len(v) : v[i] \in -MaxAbs..MaxAbs
Componentwise(op, qa, qb, qc) == G.ncomp[qc] = Max(G.ncomp[qa], G.ncomp[qb])      \* excludes the one isotropic-tensor operator
Log(e) == hist' = Append(hist, e @@ [st |-> store'])
Construct(r, q, k) ==
  /\ (store[r] = Undef \/ ((\A s \in Regs : store[s] # Undef) /\ Len(hist) % 3 = 0))   \* fill empty registers first; later overwrite only every third step
  /\ \/ \A s \in Regs : store[s] = Undef
     \/ \E s \in Regs : store[s] # Undef /\ q \in SeqSet(G.partners[store[s].q])
  /\ LET pats == G.patterns[ToString(G.ncomp[q])] IN k \in 1..Len(pats)
       /\ store' = [store EXCEPT ![r] = [q |-> q, v |-> pats[k]]]
       /\ Log([act |-> "Construct", dst |-> r, q |-> q, k |-> k, a |-> "", b |-> "", op |-> ""])
BinOp(d, op, a, b) ==
  /\ store[a] # Undef /\ store[b] # Undef
  /\ Key(store[a].q, op, store[b].q) \in DOMAIN G.ops
  /\ LET qc == G.ops[Key(store[a].q, op, store[b].q)]  va == store[a].v  vb == store[b].v IN
     /\ Componentwise(op, store[a].q, store[b].q, qc)
     /\ op = "/" => Divisible(va, vb)
     /\ Small(Apply(op, va, vb))
     /\ store' = [store EXCEPT ![d] = [q |-> qc, v |-> Apply(op, va, vb)]]
     /\ Log([act |-> "BinOp", dst |-> d, q |-> qc, k |-> 0, a |-> a, b |-> b, op |-> op])
(* constructor C(x, y) where the graph has the twin operator: the value must be the operator's *)
CtorTwin(d, c, a, b) ==
  /\ store[a] # Undef /\ store[b] # Undef
  /\ (c \o "|" \o store[a].q \o "|" \o store[b].q) \in DOMAIN G.twins
  /\ LET t == G.twins[c \o "|" \o store[a].q \o "|" \o store[b].q]
         va == IF t.swap = 0 THEN store[a].v ELSE store[b].v
         vb == IF t.swap = 0 THEN store[b].v ELSE store[a].v IN
     /\ t.op = "/" => Divisible(va, vb)
     /\ Small(Apply(t.op, va, vb))
     /\ store' = [store EXCEPT ![d] = [q |-> c, v |-> Apply(t.op, va, vb)]]
     /\ Log([act |-> "Ctor", dst |-> d, q |-> c, k |-> 0, a |-> a, b |-> b, op |-> ""])
Init == store = [r \in Regs |-> Undef] /\ hist = <<>>
Next == \/ \E r \in Regs, q \in Types, k \in 1..3 : Construct(r, q, k)
        \/ \E d, a, b \in Regs, op \in {"+", "-", "*", "/"} : BinOp(d, op, a, b)
        \/ \E d, a, b \in Regs, c \in Types : CtorTwin(d, c, a, b)
Spec == Init /\ [][Next]_vars
TypeOK == \A r \in Regs : store[r] = Undef \/ (store[r].q \in Types /\ Len(store[r].v) = G.ncomp[store[r].q] /\ Small(store[r].v))
Bound == Len(hist) <= Depth
Emit == Len(hist) # Depth \/ PrintT(<<"BEHAVIOUR", ToJson(hist)>>)
=============================================================================
